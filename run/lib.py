"""Shared machinery of the /verif checks: scratch dirs, harness build (overlay into
/repo's working tree), TLC runs, harness sharding, evidence, known findings."""
import atexit, glob, hashlib, json, os, re, shutil, subprocess, sys, tempfile, time

VERIF = os.path.dirname(os.path.dirname(os.path.abspath(__file__)))
REPO = os.environ.get("VERIF_REPO", "/repo")
SPEC = os.path.join(VERIF, "spec")
HARNESS = os.path.join(VERIF, "harness")
TLAJAR = "/opt/veriftools/tla/tla2tools.jar:/opt/veriftools/tla/CommunityModules-deps.jar"
NCPU = os.cpu_count() or 4
T0 = time.time()
ABORTS = []   # harness shards that stopped early (repeated hangs)
CRASHED = []  # (output path, exit code, log tail) of shards that died (only with tolerate_crash)


class Inconclusive(Exception):
    """build failure, TLC crash, dead driver, timeout: exit 2, never a verdict"""


def log(*a):
    print("[verif %6.1fs]" % (time.time() - T0), *a, file=sys.stderr, flush=True)


_scratch = None


def scratch():
    """per-process scratch dir under /verif/.build (ignored by git), removed at exit"""
    global _scratch
    if _scratch is None:
        base = os.path.join(VERIF, ".build")
        os.makedirs(base, exist_ok=True)
        _scratch = tempfile.mkdtemp(prefix="run%d_" % os.getpid(), dir=base)
        if not os.environ.get("VERIF_KEEP"):
            atexit.register(lambda: shutil.rmtree(_scratch, ignore_errors=True))
    return _scratch


def seed():
    try:
        return int(os.environ.get("VERIF_SEED", "1"))
    except ValueError:
        return 1


def repo_status():
    return subprocess.run(["git", "-C", REPO, "status", "--porcelain"], capture_output=True, text=True).stdout


def go_env():
    env = dict(os.environ)
    env["GOPROXY"] = "off"
    env.pop("GOTOOLCHAIN", None)
    env.pop("GOSUMDB", None)
    gf = env.get("GOFLAGS", "")
    # -mod=mod is passed on the command line together with -modfile
    env["GOFLAGS"] = " ".join(x for x in gf.split() if not x.startswith("-mod"))
    env["CGO_ENABLED"] = "1"
    return env


def build_harness(tags="sqlite,verif", race=False, extra_overlay=None, name="harness.test"):
    """go test -c of internal/zzverif (files of /verif/harness) inside /repo's module, from its working tree"""
    sc = scratch()
    before = repo_status()
    modfile = os.path.join(sc, "go.mod")
    shutil.copy(os.path.join(REPO, "go.mod"), modfile)
    shutil.copy(os.path.join(REPO, "go.sum"), os.path.join(sc, "go.sum"))
    overlay = {"Replace": {}}
    for f in sorted(glob.glob(os.path.join(HARNESS, "*.go"))):
        overlay["Replace"][os.path.join(REPO, "internal/zzverif", os.path.basename(f))] = f
    for f in sorted(glob.glob(os.path.join(HARNESS, "export", "*.go"))):
        overlay["Replace"][os.path.join(REPO, os.path.basename(f).replace("__", "/"))] = f
    for k, v in (extra_overlay or {}).items():
        overlay["Replace"][os.path.join(REPO, k)] = v
    ov = os.path.join(sc, "overlay_%s.json" % name)
    json.dump(overlay, open(ov, "w"))
    out = os.path.join(sc, name)
    cmd = ["go", "test", "-c", "-vet=off", "-mod=mod", "-modfile=" + modfile, "-tags", tags, "-overlay", ov, "-o", out]
    if race:
        cmd.append("-race")
    if os.environ.get("VERIF_COVER"):
        # development aid: which statements of ory/keto do the checks execute at all? The cover tool does not read overlays,
        # so the harness files are copied into the tree - which therefore must be a scratch worktree, never /repo.
        if os.path.realpath(REPO) == "/repo":
            raise Inconclusive("VERIF_COVER needs VERIF_REPO to point at a scratch worktree")
        for dst, src in overlay["Replace"].items():
            os.makedirs(os.path.dirname(dst), exist_ok=True)
            shutil.copy(src, dst)
        cmd = [c for c in cmd if c not in ("-overlay", ov)]
        before = repo_status()
        cmd += ["-cover", "-coverpkg=github.com/ory/keto/internal/...,github.com/ory/keto/ketoapi/...,github.com/ory/keto/proto/..."]
    cmd.append("./internal/zzverif/")
    t = time.time()
    p = subprocess.run(cmd, cwd=REPO, env=go_env(), capture_output=True, text=True)
    if p.returncode != 0:
        raise Inconclusive("harness build failed:\n" + p.stdout[-4000:] + p.stderr[-4000:])
    if repo_status() != before:
        raise Inconclusive("build changed /repo working tree")
    log("built harness (%s%s) in %.1fs" % (tags, ",race" if race else "", time.time() - t))
    return out


INCOMPLETE = []


def run_surviving(binary, family, inp, timeout=3600, max_crashes=12, **kw):
    """runs a family whose harness writes {"start": kind, "i": n} before every item and honours inp["skip"]; when a shard dies, the items it
    died on are recorded and the run resumes without them. Returns (records, crashers) with crashers = [{"kind", "i", "log"}]"""
    recs, crashers = [], []
    skip = {}
    key_of = {"typeprog": "typeprog", "prog": "prog", "lex": "lex", "text": "text", "raw": "raw"}
    while True:
        CRASHED.clear()
        got = run_harness(binary, family, dict(inp, skip={k: sorted(v) for k, v in skip.items()}), timeout=timeout, tolerate_crash=True, **kw)
        started, finished = set(), set()
        for x in got:
            if "start" in x:
                started.add((x["start"], x["i"]))
                continue
            recs.append(x)
            for kind, fld in key_of.items():
                if fld in x:
                    finished.add((kind, x[fld]))
        if not CRASHED:
            return recs, crashers
        inflight = sorted(started - finished)
        logtail = "\n".join(c[2] for c in CRASHED)
        if not inflight:
            raise Inconclusive("harness family %s died with no item in flight (%d earlier crashes):\n%s" % (family, len(crashers), logtail[-2500:]))
        m = re.search(r"((?:panic|fatal error|runtime: goroutine stack exceeds)[^\n]*(?:\n[^\n]*){0,12})", logtail)
        if not m:
            raise Inconclusive("harness family %s failed without a Go runtime crash report:\n%s" % (family, logtail[-2500:]))
        for kind, i in inflight:
            crashers.append({"kind": kind, "i": i, "log": m.group(1)[:2500]})
        if len(crashers) > max_crashes:
            # enough: every one of them is reported; the items not reached are left out (INCOMPLETE tells the caller)
            INCOMPLETE.append(family)
            return recs, crashers
        for kind, i in list(finished) + inflight:
            skip.setdefault(kind, set()).add(i)
        CRASHED.clear()


RSS_LIMIT_KB = 6 * 1024 * 1024


def run_harness(binary, family, inp, shards=None, seed_=None, timeout=3600, extra=None, env_extra=None, tolerate_crash=False):
    """runs the harness family over `shards` processes; returns the list of ndjson records"""
    sc = scratch()
    shards = shards or min(NCPU, 16)
    seed_ = seed() if seed_ is None else seed_
    inpath = os.path.join(sc, "in_%s_%d.json" % (family, time.time_ns()))
    json.dump(inp, open(inpath, "w"))
    procs = []
    env = dict(os.environ)
    env.update(env_extra or {})
    for i in range(shards):
        outp = "%s.out%d" % (inpath, i)
        cmd = [binary, "-test.run", "^TestVerif$", "-test.timeout", "%ds" % timeout, "-verif.family", family,
               "-verif.in", inpath, "-verif.out", outp, "-verif.shard", "%d/%d" % (i, shards),
               "-verif.seed", str(seed_)] + (extra or [])
        if os.environ.get("VERIF_COVER"):
            os.makedirs(os.environ["VERIF_COVER"], exist_ok=True)
            cmd.append("-test.coverprofile=%s/%s_%d_%d.cov" % (os.environ["VERIF_COVER"], family, time.time_ns(), i))
        lf = open(outp + ".log", "w")
        procs.append((subprocess.Popen(cmd, cwd=sc, stdout=lf, stderr=subprocess.STDOUT, env=env), outp, lf))
    recs = []
    t_start = time.time()
    deadline = time.time() + timeout + 30
    # watchdog: a harness process that grows beyond RSS_LIMIT is killed (a runaway in the code under test must not take the
    # machine down); it then counts as a crashed shard
    def rss_kb(pid):
        try:
            for line in open("/proc/%d/status" % pid):
                if line.startswith("VmRSS:"):
                    return int(line.split()[1])
        except OSError:
            pass
        return 0
    oom = set()
    while any(p.poll() is None for p, _, _ in procs):
        if time.time() > deadline:
            for q, _, _ in procs:
                q.kill()
            raise Inconclusive("harness timed out (family %s)" % family)
        for p, outp, _ in procs:
            if p.poll() is None and rss_kb(p.pid) > RSS_LIMIT_KB:
                p.kill()
                oom.add(outp)
        time.sleep(0.5)
    for p, outp, lf in procs:
        rc = p.wait()
        if outp in oom:
            with open(outp + ".log", "a") as fh:
                fh.write("\nfatal error: verif watchdog: the harness process grew beyond %d MB and was killed\n" % (RSS_LIMIT_KB // 1024))
        lf.close()
        if rc != 0 and not tolerate_crash:
            tail = open(outp + ".log").read()[-3000:]
            raise Inconclusive("harness family %s shard failed rc=%d:\n%s" % (family, rc, tail))
        if rc != 0:
            full = open(outp + ".log", errors="replace").read()
            # the Go runtime's crash report starts the (possibly very long) goroutine dump: keep its head and the tail of the log
            m = re.search(r"(?m)^(?:runtime: goroutine stack exceeds|fatal error:|panic:)", full)
            head = full[m.start():m.start() + 1500] + "\n[...]\n" if m else ""
            CRASHED.append((outp, rc, head + full[-6000:]))
        if os.path.exists(outp):
            for line in open(outp):
                line = line.strip()
                if line:
                    recs.append(json.loads(line))
    log("harness %s: %d shard(s), %d record(s), %.1fs" % (family, shards, len(recs), time.time() - t_start))
    aborted = [r for r in recs if "abort" in r]
    recs = [r for r in recs if "abort" not in r]
    if aborted:
        ABORTS.extend(aborted)
    return recs


class TLCResult:
    def __init__(self):
        self.lines = []      # decoded JSON objects printed with PrintT(ToJson(..))
        self.generated = 0
        self.distinct = 0
        self.ok = False
        self.violation = None  # text of an invariant / property violation
        self.raw_tail = ""
        self.wall = 0.0
        self.depth = 0       # depth of the state graph search (trace validation: events matched + 1)


def tlc(module, cfg, workers=None, timeout=1800, heap="4g", extra=None, files=None, simulate=None, want_lines=True,
        deadlock=False, javaopts=None):
    """runs TLC on spec/<module>.tla with spec/<cfg> in a scratch copy of spec/"""
    sc = scratch()
    d = tempfile.mkdtemp(prefix="tlc_", dir=sc)
    for f in glob.glob(os.path.join(SPEC, "*.tla")) + glob.glob(os.path.join(SPEC, "*.cfg")):
        shutil.copy(f, d)
    for name, content in (files or {}).items():
        with open(os.path.join(d, name), "w") as fh:
            fh.write(content)
        if os.environ.get("VERIF_DUMP_CFG") and name.endswith(".cfg"):
            # documentation aid: keep a copy of every configuration the checks run TLC with (spec/cfg/)
            dd = os.path.join(SPEC, "cfg")
            os.makedirs(dd, exist_ok=True)
            tag = "%s__%s__%s" % (module, os.environ["VERIF_DUMP_CFG"], name)
            k = 0
            while os.path.exists(os.path.join(dd, tag)) and open(os.path.join(dd, tag)).read() != content:
                k += 1
                tag = "%s__%s__%d_%s" % (module, os.environ["VERIF_DUMP_CFG"], k, name)
            with open(os.path.join(dd, tag), "w") as fh2:
                fh2.write(content)
    workers = workers or NCPU
    cmd = ["java", "-XX:+UseParallelGC", "-Xms" + heap, "-Xmx" + heap, "-XX:-UseAdaptiveSizePolicy", "-Xss64m"]
    cmd += (javaopts or [])
    cmd += ["-cp", TLAJAR, "tlc2.TLC", "-workers", str(workers), "-metadir", os.path.join(d, "md"),
            "-config", cfg]
    if simulate:
        cmd += ["-simulate", simulate]
    cmd += (extra or [])
    cmd.append(module + ".tla")
    t = time.time()
    res = TLCResult()
    outp = os.path.join(d, "tlc.out")
    with open(outp, "w") as fh:
        try:
            p = subprocess.run(cmd, cwd=d, stdout=fh, stderr=subprocess.STDOUT, timeout=timeout)
        except subprocess.TimeoutExpired:
            raise Inconclusive("TLC timed out on %s/%s" % (module, cfg))
    res.wall = time.time() - t
    tail = []
    with open(outp, errors="replace") as fh:
        for line in fh:
            if line.startswith('"') and want_lines:
                try:
                    v = json.loads(line)
                    if isinstance(v, str) and v[:1] in "{[":
                        res.lines.append(json.loads(v))
                        continue
                except Exception:
                    pass
            tail.append(line)
            if len(tail) > 400:
                tail = tail[-200:]
            m = re.match(r"(\d+) states generated, (\d+) distinct states found", line)
            if m:
                res.generated, res.distinct = int(m.group(1)), int(m.group(2))
            if "Invariant" in line and "is violated" in line or "Temporal properties were violated" in line or re.search(r"Temporal propert(y|ies) .* (was|were) violated", line) \
                    or "is violated by the initial state" in line or "Action property" in line and "violated" in line:
                res.violation = line.strip()
            m = re.match(r"The depth of the complete state graph search is (\d+)", line)
            if m:
                res.depth = int(m.group(1))
            if line.startswith("Error: Deadlock reached"):
                res.violation = "deadlock"
            if line.startswith("Error: Postcondition") and "is false" in line:
                res.violation = "postcondition false (trace not accepted)"
    res.raw_tail = "".join(tail[-120:])
    res.ok = (p.returncode == 0 and res.violation is None)
    if p.returncode != 0 and res.violation is None:
        raise Inconclusive("TLC failed on %s/%s (rc=%d):\n%s" % (module, cfg, p.returncode, res.raw_tail[-3000:]))
    log("TLC %s/%s: %d generated, %d distinct, %d lines, %.1fs%s" % (
        module, cfg, res.generated, res.distinct, len(res.lines), res.wall,
        " [tlc reports: " + res.violation + "]" if res.violation else ""))
    if not os.environ.get("VERIF_KEEP"):
        shutil.rmtree(d, ignore_errors=True)
    return res


def write_cfg(constants, invariants=(), properties=(), spec="Spec", extra=""):
    s = "SPECIFICATION %s\n" % spec
    if constants:
        s += "CONSTANTS\n" + "".join("  %s\n" % c for c in constants)
    for i in invariants:
        s += "INVARIANT %s\n" % i
    for p in properties:
        s += "PROPERTY %s\n" % p
    s += "CHECK_DEADLOCK FALSE\n" + extra
    return s


# ---------------------------------------------------------------- known findings

def known_findings(pid):
    path = os.path.join(VERIF, "known_findings.json")
    if not os.path.exists(path):
        return []
    data = json.load(open(path))
    return [f for f in data.get("findings", []) if f.get("property") == pid and f.get("status") == "known"]


# ---------------------------------------------------------------- evidence and verdicts

class Check:
    """collects what one check run covered; writes evidence and exits with the contract's code"""

    def __init__(self, pid, tier):
        self.pid, self.tier = pid, tier
        self.states = 0
        self.transitions = 0
        self.traces = 0
        self.evaluations = 0
        self.nontrivial = set()
        self.samples = []
        self.violations = []   # (description, replay object)
        self.known_hits = {}   # finding id -> count
        self.extra = {}
        self.assumptions = []
        self.rule = ""
        self.exhaustive = False

    def add_tlc(self, res):
        self.states += res.distinct
        self.transitions += res.generated

    def sample(self, s, limit=6):
        if len(self.samples) < limit:
            self.samples.append(s)

    def violation(self, desc, replay):
        self.violations.append((desc, replay))

    def known(self, fid, what):
        self.known_hits.setdefault(fid, [0, what])[0] += 1

    def finish(self):
        if ABORTS and not self.violations:
            raise Inconclusive("harness stopped after repeated hangs (%d shard(s)); termination is decided by C15" % len(ABORTS))
        ev = {
            "property_id": self.pid, "tier": self.tier, "seed": seed(), "level": "model_checking",
            "coverage": {
                "states": self.states, "transitions": self.transitions,
                "traces_validated_against_impl": self.traces,
                "samples": self.samples or ["(none)"],
                "evaluations": self.evaluations,
                "distinct_nontrivial": len(self.nontrivial) if isinstance(self.nontrivial, set) else int(self.nontrivial),
                "rule": self.rule, "exhaustive": self.exhaustive,
            },
            "assumptions": self.assumptions,
            "wall_s": round(time.time() - T0, 1),
            "violations": len(self.violations),
        }
        ev["coverage"].update(self.extra)
        ev["coverage"]["known_findings_reproduced"] = {k: v[0] for k, v in self.known_hits.items()}
        os.makedirs(os.path.join(VERIF, "evidence"), exist_ok=True)
        with open(os.path.join(VERIF, "evidence", self.pid + ".json"), "w") as fh:
            json.dump(ev, fh, indent=1, default=str)
        for fid, (n, what) in sorted(self.known_hits.items()):
            print("KNOWN-FINDING: property=%s %s %s (reproduced on %d case(s))" % (self.pid, fid, what, n))
        if self.violations:
            os.makedirs(os.path.join(VERIF, "replays"), exist_ok=True)
            path = os.path.join(VERIF, "replays", "%s_%s_%d.json" % (self.pid, self.tier, seed()))
            with open(path, "w") as fh:
                json.dump([{"what": d, "replay": r} for d, r in self.violations[:50]], fh, indent=1, default=str)
            for d, _ in self.violations[:10]:
                print("  violation:", d)
            print("VIOLATION property=%s replay=%s" % (self.pid, path))
            sys.exit(1)
        stale = os.path.join(VERIF, "replays", "%s_%s_%d.json" % (self.pid, self.tier, seed()))
        if os.path.exists(stale):
            os.remove(stale)
        print("OK property=%s tier=%s states=%d evaluations=%d nontrivial=%d wall=%.0fs" % (
            self.pid, self.tier, self.states, self.evaluations, ev["coverage"]["distinct_nontrivial"], time.time() - T0))
        sys.exit(0)


def main_wrap(fn):
    try:
        fn()
    except Inconclusive as e:
        print("INCONCLUSIVE:", str(e)[:6000], file=sys.stderr)
        sys.exit(2)
    except SystemExit:
        raise
    except BaseException:
        # a defect of the machinery itself is never a verdict about the code under test
        import traceback
        traceback.print_exc()
        print("INCONCLUSIVE: the check itself failed (see the traceback above)", file=sys.stderr)
        sys.exit(2)
