package zzverif

import (
	"fmt"
	"sort"
	"strings"
	"sync"

	"github.com/ory/keto/internal/x/vhook"
)

// Recorder of the verif hooks. H2 (checkgroup consumer) events are kept per
// group: the consumer goroutine is single threaded, so the order in which a
// group's events arrive here is the order in which they happened.
type cgEvent map[string]any

type hookRecorder struct {
	mu      sync.Mutex
	enabled bool
	cur     map[string]int // group pointer -> index into logs
	logs    [][]cgEvent
	done    []bool
	// H1: visited set pointer -> elements seen
	visited map[string]map[string]int
	keep    []any // keeps the sets alive so that their addresses are not reused while recording
}

var rec = &hookRecorder{cur: map[string]int{}, visited: map[string]map[string]int{}}

func init() { vhook.Sink = rec.sink }

func (r *hookRecorder) start() {
	r.mu.Lock()
	r.enabled, r.cur, r.logs, r.done, r.visited, r.keep = true, map[string]int{}, nil, nil, map[string]map[string]int{}, nil
	r.mu.Unlock()
}

func (r *hookRecorder) stop() {
	r.mu.Lock()
	r.enabled = false
	r.mu.Unlock()
}

func (r *hookRecorder) sink(ev string, f ...any) {
	r.mu.Lock()
	defer r.mu.Unlock()
	if !r.enabled {
		return
	}
	key := fmt.Sprintf("%p", f[0])
	switch ev {
	case "visited.add", "visited.hit":
		m := r.visited[key]
		if m == nil {
			m = map[string]int{}
			r.visited[key] = m
			r.keep = append(r.keep, f[0])
		}
		m[f[1].(string)]++
		return
	}
	if ev == "cg.start" {
		r.cur[key] = len(r.logs)
		r.logs = append(r.logs, nil)
		r.done = append(r.done, false)
	}
	i, ok := r.cur[key]
	if !ok {
		return // group started before recording began
	}
	var e cgEvent
	switch ev {
	case "cg.start":
		e = cgEvent{"ev": "start"}
	case "cg.add":
		e = cgEvent{"ev": "add", "fin": f[1].(bool)}
	case "cg.finalize":
		e = cgEvent{"ev": "finalize"}
	case "cg.result":
		e = cgEvent{"ev": "result", "m": fmt.Sprint(f[1]), "e": f[2].(bool)}
	case "cg.ctxdone":
		e = cgEvent{"ev": "ctxdone", "perr": f[1].(bool)}
	case "cg.exit":
		e = cgEvent{"ev": "exit", "m": fmt.Sprint(f[1]), "e": f[2].(bool), "total": f[3].(int), "finished": f[4].(int)}
		r.done[i] = true
		delete(r.cur, key)
	default:
		return
	}
	r.logs[i] = append(r.logs[i], e)
}

// completeLogs returns the logs of groups whose consumer has exited, and the
// number of groups still running.
func (r *hookRecorder) completeLogs() (logs [][]cgEvent, open int) {
	r.mu.Lock()
	defer r.mu.Unlock()
	for i, l := range r.logs {
		if r.done[i] {
			logs = append(logs, l)
		} else {
			open++
		}
	}
	return
}

// visitedSets returns, for every visited set seen while recording, its sorted elements joined.
func (r *hookRecorder) visitedSets() []string {
	r.mu.Lock()
	defer r.mu.Unlock()
	var out []string
	for _, m := range r.visited {
		var els []string
		for e, n := range m {
			els = append(els, fmt.Sprintf("%s x%d", e, n))
		}
		sort.Strings(els)
		out = append(out, strings.Join(els, ","))
	}
	sort.Strings(out)
	return out
}
