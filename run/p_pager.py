"""C07: Pager.tla (exhaustive pagination guarantees under interleaved writers) + behaviours and size tables replayed"""
import json
import lib
from lib import *

TIERS = {"quick": dict(runs=120, steps=40, maxsid=5, writes=2), "thorough": dict(runs=15000, steps=60, maxsid=6, writes=3)}
BAD_TOKENS = ["xyz", "not-a-uuid", "00000000-0000-0000-0000", "%00", "a" * 5000, "1", "null"]


def sid_uuid(k):
    return "00000000-0000-4000-8000-%012d" % k


def c07(tier):
    ck = Check("C07", tier)
    p = TIERS[tier]
    binary = build_harness()
    props = ["PageBound", "NoDuplicates", "Ascending", "StableRowsOnce", "ExactWhenQuiet", "NonFinalPagesFull"]
    cfg = write_cfg(['Mode = "small"', "MaxSid = %d" % p["maxsid"], "MaxWrites = %d" % p["writes"], "NRuns = 0", "NSteps = 0"],
                    invariants=props, properties=["TokenMeansMore"])
    r = tlc("Pager", "small.cfg", files={"small.cfg": cfg}, want_lines=False)
    ck.add_tlc(r)
    if r.violation:
        ck.violation("Pager.tla (exhaustive): " + r.violation, {"tlc": r.raw_tail[-3000:]})
    cfg = write_cfg(['Mode = "gen"', "MaxSid = 12", "MaxWrites = 0", "NRuns = %d" % p["runs"], "NSteps = %d" % p["steps"]])
    g = tlc("Pager", "gen.cfg", files={"gen.cfg": cfg}, extra=["-seed", str(seed())], workers=8)
    ck.add_tlc(g)
    behaviours = sorted(g.lines, key=lambda b: b["run"])
    cfg = write_cfg(['Mode = "sizes"', "MaxSid = 2001", "MaxWrites = 0", "NRuns = 0", "NSteps = 0"],
                    invariants=["PageBound", "Ascending", "ExactWhenQuiet", "NonFinalPagesFull"])   # strictly ascending implies duplicate free
    z = tlc("Pager", "sizes.cfg", files={"sizes.cfg": cfg})
    ck.add_tlc(z)
    sizes = z.lines
    if tier == "quick":
        sizes = [s for s in sizes if s["n"] <= 14 or (s["n"] in (100, 101, 201) and s["size"] in (3, 100)) or (s["n"] == 99 and s["size"] == 100)
                 or (s["n"] in (1002, 1500) and s["size"] in (1000, 1001, 2000))]
    inp = {"behaviours": [{"run": b["run"], "steps": [{k: s.get(k) for k in ("op", "sid", "kind", "size") if k in s} for s in b["steps"]]} for b in behaviours],
           "sizes": [{"n": s["n"], "size": s["size"]} for s in sizes], "bad_tokens": BAD_TOKENS}
    recs = run_harness(binary, "pager", inp)
    byb = {r["b"]: r for r in recs if "b" in r}
    for bi, b in enumerate(behaviours):
        r = byb.get(bi)
        if r is None:
            raise Inconclusive("behaviour %d not replayed" % bi)
        for si, (st, ob) in enumerate(zip(b["steps"], r["obs"])):
            if st["op"] != "fetch":
                continue
            ck.evaluations += 1
            ctx = {"behaviour": b["run"], "step": si, "query_shape": r["shape"], "via": ob["via"],
                   "prefix": [{k: s.get(k) for k in ("op", "sid", "kind", "size") if k in s} for s in b["steps"][:si + 1]]}
            want_tok = sid_uuid(st["tok"]) if st["tok"] else ""
            if ob["status"] not in ("OK", "200"):
                ck.violation("page fetch failed with %s" % ob["status"], ctx)
            elif "dup:true" in r["shape"] and len(ob["rows"]) != len(st["rows"]):
                ck.violation("a page of copies of one relationship has %d entries, the pager model says %d" % (len(ob["rows"]), len(st["rows"])), dict(ctx, expected=st["rows"]))
            elif "dup:true" not in r["shape"] and ob["rows"] != st["rows"]:
                ck.violation("page contents differ from the pager model", dict(ctx, expected=st["rows"], observed=ob["rows"]))
            elif ob["tok"] != want_tok:
                ck.violation("next_page_token differs from the pager model", dict(ctx, expected=want_tok, observed=ob["tok"]))
            if any(s["op"] in ("ins", "del") for s in b["steps"][max(0, si - 3):si]):
                ck.nontrivial.add((b["run"], si))
    ck.sample({"behaviour": behaviours[0]["run"], "steps": behaviours[0]["steps"][:10]})
    byz = {}
    for r in recs:
        if "lens" in r:
            byz.setdefault(r["z"], []).append(r)
    for zi, s in enumerate(sizes):
        for r in byz.get(zi, []):
            ck.evaluations += 1
            ctx = {"rows": s["n"], "page_size": s["size"], "sent_page_size": r["send"], "via": ["rest", "grpc", "manager"][r["via"]]}
            if r["status"] != "OK":
                ck.violation("paging failed with %s" % r["status"], ctx)
            elif r["lens"] != s["lens"] or (not r.get("dup") and r["last"] != s["last"]):
                ck.violation("page structure differs from the pager model", dict(ctx, expected_lens=s["lens"], observed_lens=r["lens"],
                                                                              expected_last=s["last"][:5], observed_last=(r["last"] or [])[:5]))
            if s["n"] > s["size"]:
                ck.nontrivial.add(("z", s["n"], s["size"], r["via"], r["send"]))
        if not byz.get(zi):
            raise Inconclusive("size table %s not replayed" % s)
    bad = [r for r in recs if "badtoken" in r]
    for r in bad:
        ck.evaluations += 1
        ok = (r["via"] == "rest" and r["status"].startswith("4")) or (r["via"] == "grpc" and r["status"] in ("InvalidArgument", "NotFound", "OutOfRange"))
        if not ok:
            ck.violation("malformed page token is not rejected as a client error (%s: %s)" % (r["via"], r["status"]),
                         {"page_token": r["badtoken"][:60], "via": r["via"], "status": r["status"]})
    if not bad:
        raise Inconclusive("no malformed-token probes ran")
    ck.extra["behaviours"] = len(behaviours)
    ck.extra["size_tables"] = len(sizes)
    ck.rule = ("Pager.tla behaviours (insert at a chosen storage position / delete / begin iteration / fetch) replayed page by page over REST, gRPC "
               "and the Manager with 9 query shapes (one of them: all four fields given and every matching row a copy of the same relationship), storage positions imposed through shard_id; size tables around the page-size boundaries; "
               "malformed tokens; non-trivial: a fetch right after an interleaved write, or a table larger than the page size")
    ck.assumptions = ["sqlite in-memory backend only", "storage order is imposed by rewriting shard_id after the insert"]
    ck.finish()
