----------------------------- MODULE OplGrammar -----------------------------
(***************************************************************************)
(* OPL programs generated from abstract syntax, so that their TypeScript   *)
(* meaning is fixed by construction.                                       *)
(*                                                                         *)
(* A permission body is an expression over three leaves (relations a, b,   *)
(* c of the same namespace) built from !, && and ||.  Show prints it with  *)
(* exactly the parentheses TypeScript's precedence (! over && over ||,     *)
(* binary operators left associative) requires, optionally with redundant  *)
(* ones, in every spelling the language allows: dot or bracket property    *)
(* access, T[] or Array<T> or a parenthesised union, optional type         *)
(* annotations, quoted property names, ',' ';' or newline separators,      *)
(* trailing commas, comments between tokens.  TT is the truth table of the *)
(* expression in TypeScript.  The real parser must accept every program    *)
(* and the rewrite it builds must have the same truth table.               *)
(***************************************************************************)
EXTENDS Integers, Sequences, FiniteSets, TLC, Json, Randomization

CONSTANTS Depth,     \* nesting depth of generated expressions
          NSample,   \* 0 = every expression, otherwise a seeded sample of this size
          NVariants  \* spelling variants per expression

Leaves == {"a", "b", "c"}
L(x) == [k |-> "leaf", r |-> x]
N(e) == [k |-> "not", c |-> e]
B(op, l, r) == [k |-> op, l |-> l, r |-> r]

RECURSIVE Exprs(_)
Exprs(d) == IF d = 0 THEN {L(x) : x \in Leaves}
            ELSE LET S == Exprs(d - 1) IN
                 S \cup {N(e) : e \in S} \cup {B(op, l, r) : op \in {"and", "or"}, l \in S, r \in S}

\* TypeScript precedence: ! 3, && 2, || 1
Prec(e) == CASE e.k = "leaf" -> 4 [] e.k = "not" -> 3 [] e.k = "and" -> 2 [] e.k = "or" -> 1

\* a spelling variant is a record of independent choices
Variants == [acc : {"dot", "bracket"}, ann : {"full", "ctx", "bare", "ret"}, arr : {"brackets", "generic", "union"},
             sep : {",", ";", "nl"}, quote : BOOLEAN, comment : {"none", "block", "doc", "stars", "empty", "line"}, redundant : BOOLEAN, trailing : BOOLEAN,
             dblnot : BOOLEAN,
             \* how the leaf "c" is spelled: directly, through a traversal of D.par (onto a relation or onto a permission), or as a permission call;
             \* and the order of the three classes in the document (class order means nothing in TypeScript)
             leafc : {"inc", "trav_rel", "trav_perm", "perm"}, order : {"UGD", "DGU", "GDU", "UDG"},
             \* kw: the relation names begin with the letters of a keyword (classmates, thisb, ctxc, implementspar): ordinary identifiers
             kw : BOOLEAN]

RelName(x, v) == IF ~v.kw THEN x
                 ELSE CASE x = "a" -> "classmates" [] x = "b" -> "thisb" [] x = "c" -> "ctxc" [] x = "par" -> "implementspar" [] OTHER -> x

LeafTxt(x, v) == IF x = "c" /\ v.leafc = "trav_rel" THEN "this.related." \o RelName("par", v) \o ".traverse((p) => p.related." \o RelName("c", v) \o ".includes(ctx.subject))"
                 ELSE IF x = "c" /\ v.leafc = "trav_perm" THEN "this.related." \o RelName("par", v) \o ".traverse((p) => p.permits.q(ctx))"
                 ELSE IF x = "c" /\ v.leafc = "perm" THEN "this.permits.q(ctx)"
                 ELSE IF v.acc = "dot" THEN "this.related." \o RelName(x, v) \o ".includes(ctx.subject)"
                 ELSE "this.related[\"" \o RelName(x, v) \o "\"].includes(ctx.subject)"
Paren(s) == "(" \o s \o ")"
\* comments between tokens, in the spellings TypeScript accepts
Cm(v) == CASE v.comment = "block" -> " /* c */ " [] v.comment = "doc" -> " /** c **/ " [] v.comment = "stars" -> " /***/ "
           [] v.comment = "empty" -> " /**/ " [] v.comment = "line" -> " // c * /* \n " [] OTHER -> " "
RECURSIVE Show(_, _)
Show(e, v) ==
  CASE e.k = "leaf" -> IF v.redundant THEN Paren(LeafTxt(e.r, v)) ELSE LeafTxt(e.r, v)
    [] e.k = "not" -> "!" \o (IF Prec(e.c) < 3 THEN Paren(Show(e.c, v))
                              ELSE IF e.c.k = "not" /\ ~v.dblnot THEN Paren(Show(e.c, v))
                              ELSE Show(e.c, v))
    [] OTHER -> LET op == IF e.k = "and" THEN Cm(v) \o "&&" \o Cm(v) ELSE Cm(v) \o "||" \o Cm(v)
                    ls == IF Prec(e.l) < Prec(e) THEN Paren(Show(e.l, v)) ELSE Show(e.l, v)
                    rs == IF Prec(e.r) <= Prec(e) THEN Paren(Show(e.r, v)) ELSE Show(e.r, v)
                IN ls \o op \o rs

TypeTxt(v) == CASE v.arr = "brackets" -> "U[]" [] v.arr = "generic" -> "Array<U>" [] OTHER -> "(U | SubjectSet<G, \"m\">)[]"
Sep(v) == CASE v.sep = "," -> ", " [] v.sep = ";" -> "; " [] OTHER -> "\n    "
Name(x, v) == IF v.quote THEN "\"" \o RelName(x, v) \o "\"" ELSE RelName(x, v)
Related(v) == "  related: {" \o Cm(v) \o Name("a", v) \o ": " \o TypeTxt(v) \o Sep(v) \o Name("b", v) \o ": " \o TypeTxt(v) \o Sep(v)
              \o Name("c", v) \o ": U[]" \o Sep(v) \o Name("par", v) \o ": D[]" \o (IF v.trailing /\ v.sep # "nl" THEN Sep(v) ELSE "") \o " }\n"
Head_(v) == CASE v.ann = "full" -> "(ctx: Context): boolean =>" [] v.ann = "ctx" -> "(ctx: Context) =>"
              [] v.ann = "ret" -> "(ctx): boolean =>" [] OTHER -> "(ctx) =>"
ClassU == "class U implements Namespace {}\n"
ClassG == "class G implements Namespace { related: { m: U[] } }\n"
HasQ(v) == v.leafc \in {"trav_perm", "perm"}
ClassD(e, v) ==
  "class D implements Namespace {\n" \o Related(v)
  \o "  permits = {" \o Cm(v) \o Name("p", v) \o ": " \o Head_(v) \o " " \o Show(e, v)
  \o (IF HasQ(v) THEN "," \o Cm(v) \o "q: (ctx) => this.related." \o RelName("c", v) \o ".includes(ctx.subject)" ELSE "")
  \o (IF v.trailing THEN "," ELSE "") \o " }\n}\n"
Program(e, v) ==
  "import { Namespace, SubjectSet, Context } from \"@ory/keto-namespace-types\"\n"
  \o (CASE v.order = "UGD" -> ClassU \o ClassG \o ClassD(e, v)
         [] v.order = "DGU" -> ClassD(e, v) \o ClassG \o ClassU
         [] v.order = "GDU" -> ClassG \o ClassD(e, v) \o ClassU
         [] OTHER -> ClassU \o ClassD(e, v) \o ClassG)
Rels(v) == {RelName(x, v) : x \in {"a", "b", "c", "p", "par"}} \cup (IF HasQ(v) THEN {"q"} ELSE {})

RECURSIVE Eval(_, _)
Eval(e, val) == CASE e.k = "leaf" -> val[e.r] [] e.k = "not" -> ~Eval(e.c, val)
                  [] e.k = "and" -> Eval(e.l, val) /\ Eval(e.r, val) [] e.k = "or" -> Eval(e.l, val) \/ Eval(e.r, val)
Vals == [Leaves -> BOOLEAN]
\* the valuations (a, b, c) under which TypeScript evaluates the body to true
TT(e) == {<<val["a"], val["b"], val["c"]>> : val \in {w \in Vals : Eval(e, w)}}

\* number of '(' and '!' levels the printed text nests (the documented limit is 10)
RECURSIVE Nest(_)
Nest(e) == CASE e.k = "leaf" -> 0 [] e.k = "not" -> 1 + Nest(e.c)
             [] OTHER -> LET a == Nest(e.l) b == Nest(e.r) IN 1 + (IF a > b THEN a ELSE b)

VARIABLES e, vi, done
vars == <<e, vi, done>>
\* deeper expressions are drawn at random (the full set is too large to enumerate)
RECURSIVE RandExpr(_)
RandExpr(d) == IF d = 0 THEN L(RandomElement(Leaves))
               ELSE CASE RandomElement(1..5) = 1 -> RandExpr(d - 1)
                      [] RandomElement(1..4) = 1 -> N(RandExpr(d - 1))
                      [] RandomElement(1..2) = 1 -> B("and", RandExpr(d - 1), RandExpr(d - 1))
                      [] OTHER -> B("or", RandExpr(d - 1), RandExpr(d - 1))
\* flat chains x1 op1 x2 op2 x3 op3 x4 as TypeScript groups them (&& binds tighter than ||, both associate to the left); every
\* operator pattern, leaves drawn at random, some negated.  Printed with minimal parentheses they contain none.
AndFold(xs) == LET RECURSIVE F(_, _)
                   F(acc, i) == IF i > Len(xs) THEN acc ELSE F(B("and", acc, xs[i]), i + 1)
               IN F(xs[1], 2)
RECURSIVE Groups(_, _, _, _)
\* splits leaves ls at the "or" operators of ops; cur = the current and-group
Groups(ls, ops, i, cur) == IF i > Len(ops) THEN <<AndFold(cur)>>
                           ELSE IF ops[i] = "or" THEN <<AndFold(cur)>> \o Groups(ls, ops, i + 1, <<ls[i + 1]>>)
                           ELSE Groups(ls, ops, i + 1, Append(cur, ls[i + 1]))
OrFold(gs) == LET RECURSIVE F(_, _)
                  F(acc, i) == IF i > Len(gs) THEN acc ELSE F(B("or", acc, gs[i]), i + 1)
              IN F(gs[1], 2)
Chain(ls, ops) == OrFold(Groups(ls, ops, 1, <<ls[1]>>))
RandLeaf == IF RandomElement(1..4) = 1 THEN N(L(RandomElement(Leaves))) ELSE L(RandomElement(Leaves))
Chains == UNION {{Chain([i \in 1..(n + 1) |-> RandLeaf], ops) : <<ops, k>> \in [1..n -> {"and", "or"}] \X (1..6)} : n \in 3..4}

\* every way of grouping three and four operands (all binary tree shapes) with every assignment of && and || to the inner nodes,
\* leaves drawn at random: printed with minimal parentheses these are exactly the texts in which a parenthesised group meets
\* an operator of the other or of the same kind on either side
RECURSIVE Shapes(_)
Shapes(n) == IF n = 1 THEN {<<>>}
             ELSE UNION {{<<l, r>> : l \in Shapes(k), r \in Shapes(n - k)} : k \in 1..(n - 1)}
RECURSIVE Fill(_)
Fill(sh) == IF sh = <<>> THEN {RandLeaf}
            ELSE {B(op, l, r) : op \in {"and", "or"}, l \in Fill(sh[1]), r \in Fill(sh[2])}
Skeletons == UNION {Fill(x[1]) : x \in (Shapes(3) \cup Shapes(4)) \X (1..6)}    \* six random leaf assignments per shape

\* ONE level with nine to twelve siblings that are parenthesised groups or negations: the documented limit (10) is on the nesting
\* of '(' and '!', not on how many of them stand next to each other
WideOf(n, k) == CASE k = 1 -> AndFold([i \in 1..n |-> B("or", RandLeaf, RandLeaf)])                 \* (a || b) && (c || a) && ...
                  [] k = 2 -> AndFold([i \in 1..n |-> N(L(RandomElement(Leaves)))])                  \* !a && !b && ...
                  [] k = 3 -> OrFold([i \in 1..n |-> N(L(RandomElement(Leaves)))])                   \* !a || !b || ...
                  [] OTHER -> OrFold([i \in 1..n |-> IF i % 2 = 0 THEN N(B("and", RandLeaf, RandLeaf)) ELSE B("and", RandLeaf, RandLeaf)])
Wide == {WideOf(n, k) : n \in 9..12, k \in 1..4}

Chosen == IF Depth = 0 THEN Chains \cup Skeletons \cup Wide ELSE IF Depth >= 3 THEN {RandExpr(Depth) : i \in 1..NSample}
          ELSE IF NSample = 0 THEN Exprs(Depth) ELSE RandomSubset(NSample, Exprs(Depth))
Init == e \in Chosen /\ vi \in 1..NVariants /\ done = FALSE
Next == /\ ~done /\ done' = TRUE /\ UNCHANGED <<e, vi>>
        /\ \E v \in {RandomElement(Variants)} :
             PrintT(ToJson([src |-> Program(e, v), tt |-> TT(e), body |-> Show(e, v), dblnot |-> v.dblnot, nest |-> Nest(e),
                            leafc |-> v.leafc, order |-> v.order, rels |-> Rels(v), kw |-> v.kw]))
Spec == Init /\ [][Next]_vars
=============================================================================
