package zzverif

import (
	"context"
	"encoding/json"
	"fmt"
	"github.com/ory/keto/internal/driver/config"
	"net/url"
	"testing"

	"google.golang.org/grpc/status"

	"github.com/ory/keto/internal/namespace"
	"github.com/ory/keto/ketoapi"
	rts "github.com/ory/keto/proto/ory/keto/relation_tuples/v1alpha2"
)

// Replay of Expand.tla cases: the tuples are written in the storage order the
// specification chose, the tree is fetched through the engine, REST and gRPC.

type expandCase struct {
	ID     int      `json:"id"`
	Tuples []jtuple `json:"tuples"` // in storage order; empty entries are skipped
	Depth  int      `json:"d"`
	Wide   int      `json:"wn"`
	Faults bool     `json:"faults"`
	// Gone: the relationships are written while the namespace "gone" is configured; it is removed from the configuration
	// before the expand (the relationships stay stored)
	Gone bool `json:"gone"`
}

type expandIn struct {
	Cases  []expandCase `json:"cases"`
	GDepth int          `json:"gdepth"`
}

type xtree struct {
	T  string   `json:"t"`
	S  []any    `json:"s"`
	Ch []*xtree `json:"ch"`
}

func subjOf(rt *ketoapi.RelationTuple) []any {
	if rt == nil {
		return []any{"none"}
	}
	if rt.SubjectID != nil {
		return []any{"id", *rt.SubjectID}
	}
	if rt.SubjectSet != nil {
		return []any{"set", rt.SubjectSet.Namespace, rt.SubjectSet.Object, rt.SubjectSet.Relation}
	}
	return []any{"none"}
}

func fromAPITree(t *ketoapi.Tree[*ketoapi.RelationTuple]) *xtree {
	if t == nil {
		return &xtree{T: "nil"}
	}
	x := &xtree{T: string(t.Type), S: subjOf(t.Tuple), Ch: []*xtree{}}
	for _, c := range t.Children {
		x.Ch = append(x.Ch, fromAPITree(c))
	}
	return x
}

func fromProtoTree(t *rts.SubjectTree) *xtree {
	if t == nil {
		return &xtree{T: "nil"}
	}
	x := &xtree{Ch: []*xtree{}}
	switch t.NodeType {
	case rts.NodeType_NODE_TYPE_LEAF:
		x.T = "leaf"
	case rts.NodeType_NODE_TYPE_UNION:
		x.T = "union"
	default:
		x.T = t.NodeType.String()
	}
	sub := t.Subject
	if t.Tuple != nil && t.Tuple.Subject != nil {
		sub = t.Tuple.Subject
	}
	switch r := sub.GetRef().(type) {
	case *rts.Subject_Id:
		x.S = []any{"id", r.Id}
	case *rts.Subject_Set:
		x.S = []any{"set", r.Set.Namespace, r.Set.Object, r.Set.Relation}
	default:
		x.S = []any{"none"}
	}
	for _, c := range t.Children {
		x.Ch = append(x.Ch, fromProtoTree(c))
	}
	return x
}

func init() { families["expand"] = famExpand }

func famExpand(t *testing.T) {
	var in expandIn
	readJSON(*fIn, &in)
	out := newNDWriter(*fOut)
	defer out.close()
	si, sn := shard()
	e := newStoreEnv(t, []*namespace.Namespace{{Name: "n"}}, *fSeed)
	for ci, c := range in.Cases {
		if ci%sn != si {
			continue
		}
		resetTuples(t, e.reg)
		var stored []*ketoapi.RelationTuple
		if c.Wide > 0 {
			for i := 1; i <= c.Wide; i++ {
				stored = append(stored, &ketoapi.RelationTuple{Namespace: "n", Object: "s", Relation: "r", SubjectID: ptr(fmt.Sprint(i))})
			}
			stored = append(stored, &ketoapi.RelationTuple{Namespace: "n", Object: "s", Relation: "r", SubjectSet: &ketoapi.SubjectSet{Namespace: "n", Object: "a", Relation: "r"}})
			for i := 1; i <= 101; i++ {
				stored = append(stored, &ketoapi.RelationTuple{Namespace: "n", Object: "a", Relation: "r", SubjectID: ptr(fmt.Sprint(1000 + i))})
			}
		} else {
			for _, jt := range c.Tuples {
				if len(jt) == 4 {
					stored = append(stored, jt.api())
				}
			}
		}
		if c.Gone {
			if err := e.reg.Config(context.Background()).Set(config.KeyNamespaces, []*namespace.Namespace{{Name: "n"}, {Name: "gone"}}); err != nil {
				t.Fatal(err)
			}
		}
		writeOrdered(t, e.reg, stored)
		if c.Gone {
			if err := e.reg.Config(context.Background()).Set(config.KeyNamespaces, []*namespace.Namespace{{Name: "n"}}); err != nil {
				t.Fatal(err)
			}
		}
		res := map[string]any{"id": c.ID}
		root := &ketoapi.SubjectSet{Namespace: "n", Object: "s", Relation: "r"}
		// engine
		ctx := e.ctx("A")
		it, err := e.reg.ReadOnlyMapper().FromSubjectSet(ctx, root)
		if err != nil {
			t.Fatal(err)
		}
		tr, err := e.reg.ExpandEngine().BuildTree(ctx, it, c.Depth)
		if err != nil {
			res["engine_err"] = err.Error()
		} else if tr == nil {
			res["engine"] = &xtree{T: "nil"}
		} else {
			at, err := e.reg.ReadOnlyMapper().ToTree(ctx, tr)
			if err != nil {
				res["engine_err"] = "totree: " + err.Error()
			} else {
				res["engine"] = fromAPITree(at)
			}
		}
		// REST
		q := url.Values{"namespace": {"n"}, "object": {"s"}, "relation": {"r"}, "max-depth": {fmt.Sprint(c.Depth)}}
		code, body := e.do("A", e.rr, "GET", "/relation-tuples/expand?"+q.Encode(), nil)
		res["rest_status"] = code
		if code == 200 {
			var at ketoapi.Tree[*ketoapi.RelationTuple]
			if err := json.Unmarshal(body, &at); err != nil {
				res["rest_err"] = err.Error()
			} else {
				res["rest"] = fromAPITree(&at)
			}
		}
		// gRPC
		resp, err := e.eh.Expand(ctx, &rts.ExpandRequest{Subject: rts.NewSubjectSet("n", "s", "r"), MaxDepth: int32(c.Depth)})
		res["grpc_status"] = status.Code(err).String()
		if err == nil {
			res["grpc"] = fromProtoTree(resp.Tree)
			// the same message decoded by the client library function
			func() {
				defer func() {
					if p := recover(); p != nil {
						res["grpc_client_err"] = fmt.Sprint(p)
					}
				}()
				if resp.Tree != nil {
					res["grpc_client"] = fromAPITree(ketoapi.TreeFromProto[*ketoapi.RelationTuple](resp.Tree))
				} else {
					res["grpc_client"] = &xtree{T: "nil"}
				}
			}()
		}
		// storage faults during an expand (every fifth case): each SQL statement of the request fails once - with a generic
		// error and with SQLite's lock conflict - and the reply must be an error or the fault-free tree, never a part of it
		if c.Faults && code == 200 {
			base, _ := json.Marshal(res["rest"])
			sqlCtl.begin(0, 0)
			e.do("A", e.rr, "GET", "/relation-tuples/expand?"+q.Encode(), nil)
			n := len(sqlCtl.end())
			var fl []map[string]any
			for k := 1; k <= n; k++ {
				for _, flavour := range []string{"generic", "locked"} {
					if flavour == "locked" {
						sqlCtl.beginLocked(k)
					} else {
						sqlCtl.begin(k, 0)
					}
					fc, fb := e.do("A", e.rr, "GET", "/relation-tuples/expand?"+q.Encode(), nil)
					sqlCtl.end()
					same := false
					if fc == 200 {
						var at ketoapi.Tree[*ketoapi.RelationTuple]
						if json.Unmarshal(fb, &at) == nil {
							got, _ := json.Marshal(fromAPITree(&at))
							same = string(got) == string(base)
						}
					}
					fl = append(fl, map[string]any{"k": k, "flavour": flavour, "status": fc, "same": same})
				}
			}
			res["faults"], res["nstmts"] = fl, n
		}
		// check decisions for the users of the universe (rewrite-free namespace, depth not binding)
		if c.Wide == 0 {
			checks := map[string]any{}
			for _, u := range []string{"u", "v", "w"} {
				ok, err := e.reg.PermissionEngine().CheckIsMember(ctx, internalTuple(t, e.reg, &ketoapi.RelationTuple{Namespace: "n", Object: "s", Relation: "r", SubjectID: ptr(u)}), 0)
				if err != nil {
					checks[u] = "err: " + err.Error()
				} else {
					checks[u] = ok
				}
			}
			res["checks"] = checks
		}
		out.write(res)
	}
}
