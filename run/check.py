#!/usr/bin/env python3
"""python3 run/check.py <ID> --tier quick|thorough [--replay path]"""
import argparse, importlib, os, sys
sys.path.insert(0, os.path.dirname(os.path.abspath(__file__)))
import lib

MODULES = {
    "C01": "p_check", "C02": "p_check", "C03": "p_check", "C15": "p_check",
    "C04": "p_store", "C06": "p_store", "C17": "p_store",
    "C07": "p_pager", "C05": "p_atomic", "C09": "p_expand", "C08": "p_api", "C13": "p_fuzz", "C12": "p_opl", "C16": "p_names", "C18": "p_codec", "C19": "p_reload", "C14": "p_conc", "C10": "p_opl", "C11": "p_opl",
}

def main():
    ap = argparse.ArgumentParser()
    ap.add_argument("pid")
    ap.add_argument("--tier", default=os.environ.get("VERIF_TIER", "quick"))
    ap.add_argument("--replay")
    a = ap.parse_args()
    if a.pid not in MODULES:
        print("unknown property", a.pid, file=sys.stderr)
        sys.exit(2)
    mod = importlib.import_module(MODULES[a.pid])
    fn = getattr(mod, a.pid.lower())
    if a.replay:
        os.environ["VERIF_REPLAY"] = a.replay
    lib.main_wrap(lambda: fn(a.tier))

if __name__ == "__main__":
    main()
