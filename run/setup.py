#!/usr/bin/env python3
"""setup: syntax-check every TLA+ module with SANY and prime the Go build cache by building the harness once"""
import glob, os, subprocess, sys
sys.path.insert(0, os.path.dirname(os.path.abspath(__file__)))
import lib

def main():
    subprocess.run(["sysctl", "-w", "fs.inotify.max_user_instances=8192"], capture_output=True)
    bad = 0
    for f in sorted(glob.glob(os.path.join(lib.SPEC, "*.tla"))):
        p = subprocess.run(["java", "-cp", lib.TLAJAR, "tla2sany.SANY", os.path.basename(f)], cwd=lib.SPEC, capture_output=True, text=True)
        if p.returncode != 0 or "Semantic errors" in p.stdout or "*** Errors" in p.stdout:
            print("SANY failed on", f, p.stdout[-2000:])
            bad += 1
    lib.build_harness()
    sys.exit(1 if bad else 0)

if __name__ == "__main__":
    lib.main_wrap(main)
