"""Reconf.tla: live configuration changes interleaved with requests (parts of C02, C08, C09)"""
import json
import lib
from lib import *

SUBSETS = {
    "C02": {"check_rw", "check_chain_d0", "check_chain_d3", "check_chain_d6", "check_wide", "batch_chain_d0", "batch_chain_d6", "grpc_check_chain_d0"},
    "C08": {"check_rw", "check_chain_d0", "check_m", "batch_chain_d0", "batch_chain_d6", "grpc_check_chain_d0", "list_n", "list_m"},
    "C09": {"expand_d0", "expand_d3", "expand_d6", "grpc_expand_d0", "check_chain_d0"},
    # the relations a check may use are those of the document in force
    "C11": {"check_rw", "check_chain_d0", "check_m", "grpc_check_chain_d0"},
    # every request carries a deadline: one that has not returned 15 s after its deadline is a reply no reference server gives
    "C15": {"check_rw", "check_chain_d0", "check_m", "check_wide", "batch_chain_d0", "grpc_check_chain_d0"},
}


def nsstore(ck, tier):
    """NsStore.tla: the lock protocol of the in-memory namespace store (lookups under the read lock, reloads under the write lock)"""
    n = 3 if tier == "quick" else 4
    base = ("SPECIFICATION Spec\nCONSTANTS\n  Readers = {%s}\n  MaxSets = 2\n  MaxLookups = 2\n  LeakOnUnknown = %%s\n%%s"
            "PROPERTIES ReloadGetsThrough LookupReturns\nCHECK_DEADLOCK FALSE\n" % ", ".join("r%d" % i for i in range(1, n + 1)))
    r = tlc("NsStore", "ns.cfg", files={"ns.cfg": base % ("FALSE", "INVARIANTS TypeOK LockBalanced Exclusion\n")}, want_lines=False, workers=8, heap="2g")
    ck.add_tlc(r)
    if r.violation or not r.ok:
        ck.violation("NsStore.tla: " + str(r.violation), {"tlc": r.raw_tail[-2000:]})
    # the slip (no unlock on the path for an unknown name) must be visible to the model: as a leaked lock, and as a reload that waits for ever
    r1 = tlc("NsStore", "ns1.cfg", files={"ns1.cfg": base % ("TRUE", "INVARIANTS LockBalanced\n")}, want_lines=False, workers=2, heap="2g")
    r2 = tlc("NsStore", "ns2.cfg", files={"ns2.cfg": base % ("TRUE", "")}, want_lines=False, workers=2, heap="2g")
    if not r1.violation or not r2.violation:
        raise Inconclusive("NsStore.tla does not exhibit the leaked read lock / the reload that never gets through (the properties are vacuous)")


def reconf(ck, binary, tier, pid):
    if pid in ("C15", "C19"):
        nsstore(ck, tier)
    for stale, want_ok in (("FALSE", True), ("TRUE", False)):
        cfg = write_cfg(['Mode = "small"', "Stale = %s" % stale, "NRuns = 0", "NSteps = 0"], invariants=["CurrentConfig"])
        r = tlc("Reconf", "r.cfg", files={"r.cfg": cfg}, want_lines=False, workers=4, heap="2g")
        if want_ok:
            ck.add_tlc(r)
            if r.violation:
                ck.violation("Reconf.tla: " + r.violation, {"tlc": r.raw_tail[-2000:]})
        elif not r.violation:
            raise Inconclusive("Reconf.tla: the memoising server satisfies CurrentConfig (the invariant is vacuous)")
    runs, steps = (72, 16) if tier == "quick" else (600, 24)
    cfg = write_cfg(['Mode = "gen"', "Stale = FALSE", "NRuns = %d" % runs, "NSteps = %d" % steps])
    g = tlc("Reconf", "g.cfg", files={"g.cfg": cfg}, extra=["-seed", str(seed())], workers=8, heap="2g")
    ck.add_tlc(g)
    keep = SUBSETS[pid]
    hs = []
    for h in sorted(g.lines, key=lambda h: h["run"]):
        # every third history reconfigures the long-lived server by replacing its watched configuration FILE (limits and the list
        # of namespace names can be written there; the content of a namespace cannot, so it stays "plain" in those histories)
        # ... and every third one has its namespaces in a watched OPL file named by that configuration file: changes of the
        # namespace list and of the content of n rewrite the OPL file
        viafile = h["run"] % 3 in (0, 1)
        viaopl = h["run"] % 3 == 1
        st = []
        for s in h["steps"]:
            if viafile and not viaopl:
                if s["op"] == "set" and s["key"] == "content":
                    continue
                s = dict(s, content="plain")
            if s["op"] == "set" or s["req"] in keep:
                st.append(s)
        if any(s["op"] == "req" for s in st):
            hs.append({"run": h["run"], "steps": st, "file": viafile, "opl": viaopl})
    # histories that are always replayed (TLC draws the others): each setting changed after a request was served, a request
    # that depends on it, the setting changed back, the request again - in every way of reconfiguring
    def fixed(ops):
        cfg = {"depth": 8, "width": 100, "ns": ["n", "m"], "content": "plain"}
        st = []
        for op in ops:
            if op[0] == "set":
                cfg = dict(cfg, **{op[1]: op[2]})
                st.append(dict(cfg, op="set", key=op[1], req=""))
            else:
                st.append(dict(cfg, op="req", key="", req=op[1]))
        return st
    W = [
        [("req", "check_chain_d0"), ("req", "expand_d0"), ("set", "content", "rw"), ("req", "check_rw"), ("req", "batch_chain_d0"), ("req", "expand_d0"),
         ("set", "content", "plain"), ("req", "check_rw"), ("set", "content", "rw"), ("req", "check_rw"), ("req", "grpc_check_chain_d0"), ("req", "list_n")],
        [("req", "check_m"), ("req", "check_chain_d0"), ("req", "expand_d3"), ("set", "ns", ["n"]), ("req", "check_m"), ("req", "list_m"), ("req", "check_chain_d0"),
         ("req", "expand_d3"), ("set", "ns", ["n", "m"]), ("req", "check_m"), ("req", "list_m"), ("req", "batch_chain_d0"), ("req", "grpc_expand_d0")],
        [("req", "check_chain_d6"), ("req", "expand_d6"), ("set", "depth", 2), ("req", "check_chain_d0"), ("req", "check_chain_d6"), ("req", "expand_d6"), ("req", "expand_d0"),
         ("req", "batch_chain_d6"), ("set", "width", 1), ("req", "check_wide"), ("set", "depth", 8), ("req", "check_chain_d0"), ("req", "expand_d0"),
         ("set", "width", 100), ("req", "check_wide"), ("req", "grpc_check_chain_d0"), ("req", "grpc_expand_d0")],
    ]
    for wi, ops in enumerate(W):
        for mode in (0, 1, 2):     # Config.Set, watched configuration file, watched OPL file
            if mode == 1 and wi == 0:
                continue           # the content of a namespace cannot be written into the configuration file
            st = [x for x in fixed(ops) if x["op"] == "set" or x["req"] in keep]
            if any(x["op"] == "req" for x in st):
                hs.append({"run": 9000 + 10 * wi + mode, "steps": st, "file": mode in (1, 2), "opl": mode == 2})
    if not hs:
        raise Inconclusive("Reconf.tla generated no histories")
    recs = {x["h"]: x for x in run_harness(binary, "reconf", {"histories": hs}, shards=8)}
    nreq = after = viafile = viaopl = 0
    for i, h in enumerate(hs):
        ob = recs.get(i)
        if ob is None:
            raise Inconclusive("reconfiguration history %d not replayed" % i)
        if ob.get("noreload"):
            raise Inconclusive("the configuration file change of history %d (step %d) was not picked up within 15 s" % (h["run"], ob["step"]))
        if ob.get("file"):
            viafile += 1
        if ob.get("opl"):
            viaopl += 1
        nreq += ob["requests"]
        after += ob["after_change"]
        ck.evaluations += ob["requests"]
        for d in ob["diffs"] or []:
            ck.violation("after a live configuration change a request (%s) is not answered as a server started with the configuration in force answers it"
                         % d["request"], dict(d, history=h["run"], steps=h["steps"][:d["step"] + 1]))
        if ob["after_change"]:
            ck.nontrivial.add(("reconf", h["run"]))
    ck.traces += len(hs)
    ck.extra["reconfiguration_histories"] = len(hs)
    ck.extra["requests_after_a_configuration_change"] = after
    ck.extra["histories_reconfigured_through_the_watched_file"] = viafile
    ck.extra["of_which_with_namespaces_in_a_watched_opl_file"] = viaopl
    if after == 0:
        raise Inconclusive("no request followed a configuration change")
