package zzverif

import (
	"context"
	"encoding/hex"
	"encoding/json"
	"fmt"
	"net/http"
	"net/url"
	"runtime/debug"
	"strings"
	"sync"
	"testing"

	"google.golang.org/grpc/status"

	"github.com/ory/keto/internal/schema"
	"github.com/ory/keto/ketoapi"
	opl "github.com/ory/keto/proto/ory/keto/opl/v1alpha1"
	rts "github.com/ory/keto/proto/ory/keto/relation_tuples/v1alpha2"
)

// C13: requests of ApiReq.tla instantiated and sent to the real routers and
// gRPC handler methods.

type fuzzReq struct {
	I      int               `json:"i"`
	Ep     string            `json:"ep"`
	Fields map[string]string `json:"fields"`
}

type fuzzIn struct {
	Reqs []fuzzReq `json:"reqs"`
	// Conc > 0: the requests (read requests and requests that were rejected) are first answered one after the other, then by
	// Conc workers at once, each walking the list from another position; every reply must be the reply given alone
	Conc int `json:"conc"`
}

type fuzzOut struct {
	I        int    `json:"i"`
	Kind     string `json:"kind"`
	Status   int    `json:"status"`
	Code     string `json:"code"`
	Panicked bool   `json:"panicked"`
	Panic    string `json:"panic,omitempty"`
	Failed   bool   `json:"failed"`
	Changed  bool   `json:"state_changed"`
	Desc     string `json:"desc"`
	Reply    string `json:"-"` // body of an error reply / message of a gRPC error (compared between alone and concurrent runs)
}

var longStr = strings.Repeat("Z", 20000)

// strVariant: present?, JSON value, URL value
func strVariant(v, plain string) (bool, any, string) {
	switch v {
	case "absent":
		return false, nil, ""
	case "empty":
		return true, "", ""
	case "plain":
		return true, plain, plain
	case "sep":
		return true, "a:b#c@(d:e#f)", "a:b#c@(d:e#f)"
	case "long":
		return true, longStr, longStr
	case "unicode":
		return true, "ü😀\u0000\ufeffé", "ü😀\x00\ufeffé"
	case "null":
		return true, nil, "null"
	case "number":
		return true, 123, "123"
	case "object":
		return true, map[string]any{"x": 1}, "{\"x\":1}"
	case "known":
		return true, "n1", "n1"
	case "known2":
		return true, "n2", "n2"
	case "unknown":
		return true, "no-such-namespace", "no-such-namespace"
	}
	return true, v, v
}

func setStr(m map[string]any, q url.Values, key, variant, plain string) {
	ok, jv, uv := strVariant(variant, plain)
	if !ok {
		return
	}
	m[key] = jv
	q.Set(key, uv)
}

func setSubject(m map[string]any, q url.Values, v string) {
	switch v {
	case "absent":
	case "id":
		m["subject_id"] = "u1"
		q.Set("subject_id", "u1")
	case "id_empty":
		m["subject_id"] = ""
		q.Set("subject_id", "")
	case "set":
		m["subject_set"] = map[string]any{"namespace": "n1", "object": "o1", "relation": "r1"}
		q.Set("subject_set.namespace", "n1")
		q.Set("subject_set.object", "o1")
		q.Set("subject_set.relation", "r1")
	case "set_incomplete":
		m["subject_set"] = map[string]any{"namespace": "n1"}
		q.Set("subject_set.namespace", "n1")
	case "set_unknownns":
		m["subject_set"] = map[string]any{"namespace": "no-such-namespace", "object": "o1", "relation": ""}
		q.Set("subject_set.namespace", "no-such-namespace")
		q.Set("subject_set.object", "o1")
		q.Set("subject_set.relation", "")
	case "both":
		m["subject_id"] = "u1"
		m["subject_set"] = map[string]any{"namespace": "n1", "object": "o1", "relation": "r1"}
		q.Set("subject_id", "u1")
		q.Set("subject_set.namespace", "n1")
		q.Set("subject_set.object", "o1")
		q.Set("subject_set.relation", "r1")
	case "null":
		m["subject_id"] = nil
		m["subject_set"] = nil
		q.Set("subject", "null")
	case "string":
		m["subject_set"] = "not-an-object"
		q.Set("subject_set", "not-an-object")
	case "set_null_fields":
		m["subject_set"] = map[string]any{"namespace": nil, "object": nil, "relation": nil}
		q.Set("subject_set.namespace", "")
		q.Set("subject_set.object", "")
		q.Set("subject_set.relation", "")
	}
}

func protoSubject(v string) *rts.Subject {
	switch v {
	case "absent", "null":
		return nil
	case "id":
		return rts.NewSubjectID("u1")
	case "id_empty":
		return rts.NewSubjectID("")
	case "set":
		return rts.NewSubjectSet("n1", "o1", "r1")
	case "set_incomplete":
		return &rts.Subject{Ref: &rts.Subject_Set{Set: &rts.SubjectSet{Namespace: "n1"}}}
	case "set_unknownns":
		return rts.NewSubjectSet("no-such-namespace", "o1", "")
	case "both", "string":
		return &rts.Subject{}
	case "set_null_fields":
		return &rts.Subject{Ref: &rts.Subject_Set{Set: nil}}
	}
	return nil
}

func protoStr(v, plain string) *string {
	ok, _, uv := strVariant(v, plain)
	if !ok || v == "null" {
		return nil
	}
	return &uv
}

func derefOr(p *string) string {
	if p == nil {
		return ""
	}
	return *p
}

func bodyBytes(variant string, valid any) []byte {
	switch variant {
	case "valid":
		b, _ := json.Marshal(valid)
		return b
	case "empty":
		return []byte{}
	case "not_json":
		return []byte("this is { not json")
	case "array":
		return []byte("[1, 2, 3]")
	case "string":
		return []byte("\"just a string\"")
	case "null":
		return []byte("null")
	case "truncated":
		b, _ := json.Marshal(valid)
		if len(b) > 3 {
			return b[:len(b)/2]
		}
		return b
	case "nested_deep":
		return []byte(strings.Repeat("{\"a\":", 3000) + "1" + strings.Repeat("}", 3000))
	}
	return nil
}

func oplBytes(v string) []byte {
	// a whole document handed in by the runner (programs of OplTypes.tla / OplGrammar.tla)
	if strings.HasPrefix(v, "prog:") {
		return []byte(v[5:])
	}
	if strings.HasPrefix(v, "progx:") { // hex: documents that are not valid UTF-8
		b, _ := hex.DecodeString(v[6:])
		return b
	}
	switch v {
	case "valid_opl":
		return []byte("class U implements Namespace {}\nclass D implements Namespace { related: { a: U[] } permits = { p: (ctx: Context): boolean => this.related.a.includes(ctx.subject) } }")
	case "empty":
		return []byte{}
	case "garbage":
		return []byte("}{)(*&^%$ class class => => ")
	case "invalid_utf8":
		return []byte("class \xff\xfe\x80 implements \xc3")
	case "unterminated_comment":
		return []byte("class A implements Namespace { /* never closed ")
	case "unterminated_string":
		return []byte("class A implements Namespace { related: { \"abc: U[] } }")
	case "deep_nesting":
		return []byte("class A implements Namespace { permits = { p: (ctx) => " + strings.Repeat("(", 5000) + "this.related.a.includes(ctx.subject)" + strings.Repeat(")", 5000) + " } }")
	case "huge":
		return []byte(strings.Repeat("class A implements Namespace {}\n", 20000))
	case "type_error":
		return []byte("class A implements Namespace { related: { a: B[] } permits = { p: (ctx) => this.related.zzz.includes(ctx.subject) } }")
	}
	return nil
}

func (e *storeEnv) fuzzOne(r fuzzReq) (o fuzzOut) {
	o.I = r.I
	f := r.Fields
	ctx := e.ctx("A")
	defer func() {
		if p := recover(); p != nil {
			o.Panicked = true
			st := string(debug.Stack())
			if len(st) > 1800 {
				st = st[:1800]
			}
			o.Panic = fmt.Sprintf("%v\n%s", p, st)
		}
	}()
	rest := func(h http.Handler, method, target string, body []byte) {
		o.Kind = "rest"
		o.Desc = method + " " + target
		if len(o.Desc) > 300 {
			o.Desc = o.Desc[:300] + "..."
		}
		if body != nil && len(body) < 300 {
			o.Desc += " body=" + string(body)
		}
		code, rb := e.do("A", h, method, target, body)
		o.Status, o.Failed = code, code >= 400
		if code >= 400 && len(rb) < 2000 {
			o.Reply = string(rb)
		}
	}
	// (grpcWire: a reply that cannot be put on the wire is what the client sees as codes.Internal)
	grpcDone := func(desc string, err error) {
		o.Kind = "grpc"
		o.Desc = desc
		o.Code, o.Failed = status.Code(err).String(), err != nil
		if err != nil && len(err.Error()) < 2000 {
			o.Reply = err.Error()
		}
	}
	m := map[string]any{}
	q := url.Values{}
	setStr(m, q, "namespace", f["namespace"], "n1")
	setStr(m, q, "object", f["object"], "o1")
	setStr(m, q, "relation", f["relation"], "r1")
	if s, ok := f["subject"]; ok {
		setSubject(m, q, s)
	}
	if d, ok := f["depth"]; ok && d != "absent" {
		q.Set("max-depth", d)
	}
	if v, ok := f["page_size"]; ok && v != "absent" {
		q.Set("page_size", v)
	}
	tok := func() string {
		switch f["page_token"] {
		case "empty":
			return ""
		case "valid":
			return sidUUID(1)
		case "xyz":
			return "xyz"
		case "uuid_unknown":
			return "7e059862-b56d-45aa-8a73-6a115965e221"
		case "long":
			return longStr
		}
		return ""
	}
	if v, ok := f["page_token"]; ok && v != "absent" {
		q.Set("page_token", tok())
	}
	depth32 := func() int32 {
		var d int64
		fmt.Sscan(f["depth"], &d)
		return int32(d)
	}
	psize32 := func() int32 {
		var d int64
		fmt.Sscan(f["page_size"], &d)
		return int32(d)
	}
	tuples := func(shape string) []any {
		one := m
		switch shape {
		case "one":
			return []any{one}
		case "two":
			return []any{one, map[string]any{"namespace": "n2", "object": "x", "relation": "y", "subject_id": "z"}}
		case "empty":
			return []any{}
		case "null_element":
			return []any{one, nil}
		case "missing_tuple":
			return []any{map[string]any{}}
		case "huge":
			var l []any
			for i := 0; i < 1500; i++ {
				l = append(l, one)
			}
			return l
		}
		return nil
	}
	protoTupleOf := func() *rts.RelationTuple {
		return &rts.RelationTuple{Namespace: derefOr(protoStr(f["namespace"], "n1")), Object: derefOr(protoStr(f["object"], "o1")),
			Relation: derefOr(protoStr(f["relation"], "r1")), Subject: protoSubject(f["subject"])}
	}
	protoTuples := func(shape string) []*rts.RelationTuple {
		one := protoTupleOf()
		switch shape {
		case "one":
			return []*rts.RelationTuple{one}
		case "two":
			return []*rts.RelationTuple{one, {Namespace: "n2", Object: "x", Relation: "y", Subject: rts.NewSubjectID("z")}}
		case "empty":
			return []*rts.RelationTuple{}
		case "null_element", "missing_tuple":
			// a repeated message field cannot hold nil on the wire; an empty message is the closest well-formed request
			return []*rts.RelationTuple{one, {}}
		case "huge":
			var l []*rts.RelationTuple
			for i := 0; i < 1500; i++ {
				l = append(l, one)
			}
			return l
		}
		return nil
	}
	switch r.Ep {
	case "rest_list":
		rest(e.rr, "GET", "/relation-tuples?"+q.Encode(), nil)
	case "rest_check_get":
		path := "/relation-tuples/check"
		if r.I%2 == 0 {
			path += "/openapi"
		}
		rest(e.rr, "GET", path+"?"+q.Encode(), nil)
	case "rest_check_post":
		path := "/relation-tuples/check"
		if r.I%2 == 0 {
			path += "/openapi"
		}
		dq := url.Values{}
		if q.Has("max-depth") {
			dq.Set("max-depth", q.Get("max-depth"))
		}
		rest(e.rr, "POST", path+"?"+dq.Encode(), bodyBytes(f["body"], m))
	case "rest_batch":
		dq := url.Values{}
		if q.Has("max-depth") {
			dq.Set("max-depth", q.Get("max-depth"))
		}
		var payload any
		switch f["shape"] {
		case "not_array":
			payload = map[string]any{"tuples": "nope"}
		case "null":
			payload = map[string]any{"tuples": nil}
		default:
			payload = map[string]any{"tuples": tuples(f["shape"])}
		}
		rest(e.rr, "POST", "/relation-tuples/batch/check?"+dq.Encode(), bodyBytes(f["body"], payload))
	case "rest_expand":
		rest(e.rr, "GET", "/relation-tuples/expand?"+q.Encode(), nil)
	case "rest_namespaces":
		rest(e.rr, "GET", "/namespaces?"+q.Encode(), nil)
	case "rest_create":
		rest(e.wr, "PUT", "/admin/relation-tuples", bodyBytes(f["body"], m))
	case "rest_delete":
		var b []byte
		if f["body"] == "valid" {
			b = []byte("{\"x\":1}")
		}
		rest(e.wr, "DELETE", "/admin/relation-tuples?"+q.Encode(), b)
	case "rest_patch":
		var action any = f["action"]
		switch f["action"] {
		case "absent":
			action = nil
		case "null":
			action = nil
		case "unknown":
			action = "upsert"
		}
		mk := func(t any) any {
			d := map[string]any{"relation_tuple": t}
			if f["action"] != "absent" {
				d["action"] = action
			}
			return d
		}
		var payload any
		switch f["shape"] {
		case "one":
			payload = []any{mk(m)}
		case "two":
			payload = []any{mk(m), mk(map[string]any{"namespace": "n2", "object": "x", "relation": "y", "subject_id": "z"})}
		case "empty":
			payload = []any{}
		case "null_element":
			payload = []any{mk(m), nil}
		case "not_array":
			payload = mk(m)
		case "null":
			payload = nil
		case "missing_tuple":
			payload = []any{map[string]any{"action": action}}
		case "huge":
			var l []any
			for i := 0; i < 1200; i++ {
				l = append(l, mk(m))
			}
			payload = l
		}
		rest(e.wr, "PATCH", "/admin/relation-tuples", bodyBytes(f["body"], payload))
	case "rest_syntax":
		rest(e.sr, "POST", "/opl/syntax/check", oplBytes(f["bytes"]))
	case "rest_wrong_route":
		paths := map[string]string{"list": "/relation-tuples", "check": "/relation-tuples/check", "batch": "/relation-tuples/batch/check",
			"expand": "/relation-tuples/expand", "admin": "/admin/relation-tuples", "syntax": "/opl/syntax/check", "nowhere": "/no/such/route", "namespaces": "/namespaces"}
		h := map[string]http.Handler{"read": e.rr, "write": e.wr, "syntax": e.sr}[f["router"]]
		rest(h, f["method"], paths[f["path"]]+"?namespace=n1&object=o1&relation=r1&subject_id=u1", []byte("{\"namespace\":\"n1\",\"object\":\"o1\",\"relation\":\"r1\",\"subject_id\":\"u1\"}"))
		// an unknown route or method is a client error by definition; what matters is that nothing changes or crashes
	case "grpc_list":
		req := &rts.ListRelationTuplesRequest{PageSize: psize32(), PageToken: tok()}
		switch f["query"] {
		case "new":
			req.RelationQuery = &rts.RelationQuery{Namespace: protoStr(f["namespace"], "n1"), Object: protoStr(f["object"], "o1"), Subject: protoSubject(f["subject"])}
		case "deprecated":
			req.Query = &rts.ListRelationTuplesRequest_Query{Namespace: derefOr(protoStr(f["namespace"], "n1")), Object: derefOr(protoStr(f["object"], "o1")), Subject: protoSubject(f["subject"])} //nolint
		}
		_, err := grpcWire(e.rt.ListRelationTuples(ctx, req))
		grpcDone(fmt.Sprintf("ListRelationTuples %v", f), err)
	case "grpc_check":
		req := &rts.CheckRequest{MaxDepth: depth32()}
		switch f["style"] {
		case "tuple":
			req.Tuple = protoTupleOf()
		case "flat":
			t := protoTupleOf()
			req.Namespace, req.Object, req.Relation, req.Subject = t.Namespace, t.Object, t.Relation, t.Subject //nolint
		}
		_, err := grpcWire(e.ch.Check(ctx, req))
		grpcDone(fmt.Sprintf("Check %v", f), err)
	case "grpc_batch":
		_, err := grpcWire(e.ch.BatchCheck(ctx, &rts.BatchCheckRequest{Tuples: protoTuples(f["shape"]), MaxDepth: depth32()}))
		grpcDone(fmt.Sprintf("BatchCheck %v", f), err)
	case "grpc_expand":
		_, err := grpcWire(e.eh.Expand(ctx, &rts.ExpandRequest{Subject: protoSubject(f["subject"]), MaxDepth: depth32()}))
		grpcDone(fmt.Sprintf("Expand %v", f), err)
	case "grpc_namespaces":
		_, err := grpcWire(e.ns.ListNamespaces(ctx, &rts.ListNamespacesRequest{}))
		grpcDone("ListNamespaces", err)
	case "grpc_transact":
		act := map[string]rts.RelationTupleDelta_Action{"insert": rts.RelationTupleDelta_ACTION_INSERT, "delete": rts.RelationTupleDelta_ACTION_DELETE,
			"unknown": rts.RelationTupleDelta_Action(77), "absent": rts.RelationTupleDelta_ACTION_UNSPECIFIED, "null": rts.RelationTupleDelta_ACTION_UNSPECIFIED}[f["action"]]
		req := &rts.TransactRelationTuplesRequest{}
		for _, t := range protoTuples(f["shape"]) {
			req.RelationTupleDeltas = append(req.RelationTupleDeltas, &rts.RelationTupleDelta{Action: act, RelationTuple: t})
		}
		if f["shape"] == "null_element" {
			// a delta whose relation_tuple sub-message is absent
			req.RelationTupleDeltas = append(req.RelationTupleDeltas, &rts.RelationTupleDelta{Action: act})
		}
		_, err := grpcWire(e.rt.TransactRelationTuples(ctx, req))
		grpcDone(fmt.Sprintf("TransactRelationTuples %v", f), err)
	case "grpc_delete":
		req := &rts.DeleteRelationTuplesRequest{}
		switch f["query"] {
		case "new":
			req.RelationQuery = &rts.RelationQuery{Namespace: protoStr(f["namespace"], "n1"), Object: protoStr(f["object"], "o1"), Subject: protoSubject(f["subject"])}
		case "deprecated":
			req.Query = &rts.DeleteRelationTuplesRequest_Query{Namespace: derefOr(protoStr(f["namespace"], "n1")), Object: derefOr(protoStr(f["object"], "o1")), Subject: protoSubject(f["subject"])} //nolint
		}
		_, err := grpcWire(e.rt.DeleteRelationTuples(ctx, req))
		grpcDone(fmt.Sprintf("DeleteRelationTuples %v", f), err)
	case "grpc_syntax":
		_, err := grpcWire(e.sx.Check(ctx, &opl.CheckRequest{Content: oplBytes(f["bytes"])}))
		grpcDone(fmt.Sprintf("SyntaxService.Check %s", f["bytes"]), err)
	default:
		o.Kind, o.Desc = "skip", "unknown endpoint "+r.Ep
	}
	return
}

func init() { families["fuzz"] = famFuzz }

func famFuzz(t *testing.T) {
	var in fuzzIn
	readJSON(*fIn, &in)
	out := newNDWriter(*fOut)
	defer out.close()
	si, sn := shard()
	e := newStoreEnv(t, storeNamespaces(), *fSeed)
	e.ns = namespaceHandler(e.reg)
	e.sx = schema.NewHandler(e.reg)
	// some stored relationships, so that deletes and lists have something to touch
	seed := []*ketoapi.RelationTuple{
		{Namespace: "n1", Object: "o1", Relation: "r1", SubjectID: ptr("u1")},
		{Namespace: "n1", Object: "o1", Relation: "r1", SubjectSet: &ketoapi.SubjectSet{Namespace: "n1", Object: "o1", Relation: "r1"}},
		{Namespace: "n2", Object: "x", Relation: "y", SubjectID: ptr("z")},
		{Namespace: "n1", Object: "", Relation: "", SubjectID: ptr("")},
	}
	// more relationships on one object than half the name-lookup page, so that
	// listings reference more ids than distinct ones
	for i := 0; i < 70; i++ {
		seed = append(seed, &ketoapi.RelationTuple{Namespace: "n1", Object: "o1", Relation: "r1", SubjectID: ptr(fmt.Sprintf("member-%d", i))})
	}
	e.setInitial(seed)
	if in.Conc > 0 {
		var mine []fuzzReq
		for _, r := range in.Reqs {
			if r.I%sn == si {
				mine = append(mine, r)
			}
		}
		key := func(o fuzzOut) string {
			return fmt.Sprintf("%s %d %s failed=%v panicked=%v", o.Kind, o.Status, o.Code, o.Failed, o.Panicked)
		}
		alone := make([]string, len(mine))
		for i, r := range mine {
			alone[i] = key(e.fuzzOne(r))
		}
		// the text of an error reply is compared too, where it is the same in two runs alone
		for i, r := range mine {
			a, b := e.fuzzOne(r), e.fuzzOne(r)
			if key(a) == alone[i] && a.Reply == b.Reply {
				alone[i] += " " + a.Reply
			} else {
				alone[i] += " *"
			}
		}
		withReply := func(i int, o fuzzOut) string {
			if strings.HasSuffix(alone[i], " *") {
				return key(o) + " *"
			}
			return key(o) + " " + o.Reply
		}
		out.write(map[string]any{"conc_start": len(mine)})
		out.flush()
		var (
			mu    sync.Mutex
			diffs []map[string]any
			wg    sync.WaitGroup
			n     int
		)
		for w := 0; w < in.Conc; w++ {
			wg.Add(1)
			go func(w int) {
				defer wg.Done()
				// first pass: all workers walk the list in step (requests of one kind meet each other); second pass: from
				// positions spread over the list (requests of different kinds meet)
				for k := 0; k < 2*len(mine); k++ {
					i := k % len(mine)
					if k >= len(mine) {
						i = (k + w*len(mine)/in.Conc) % len(mine)
					}
					got := withReply(i, e.fuzzOne(mine[i]))
					mu.Lock()
					n++
					if got != alone[i] && len(diffs) < 20 {
						diffs = append(diffs, map[string]any{"i": mine[i].I, "alone": alone[i], "concurrent": got})
					}
					mu.Unlock()
				}
			}(w)
		}
		wg.Wait()
		out.write(map[string]any{"conc_done": n, "diffs": diffs})
		return
	}
	for _, r := range in.Reqs {
		if r.I%sn != si {
			continue
		}
		out.write(map[string]any{"start": r.I})
		out.flush()
		before := e.dumpHash()
		o := e.fuzzOne(r)
		if e.dumpHash() != before {
			o.Changed = true
			e.setInitial(seed) // keep requests independent of each other
		}
		out.write(o)
		out.flush()
	}
	_ = context.Background
}
