----------------------------- MODULE CheckWide -----------------------------
(***************************************************************************)
(* Check cases with more subject sets on one node than the storage layer   *)
(* fetches per page (1000 in TraverseSubjectSetExpansion, 100 in           *)
(* GetRelationTuples): the granting subject set may sit on any page, in    *)
(* any storage position.  Same engine model and claims as CheckCases.tla,  *)
(* on parametric universes instead of subsets of a small one.              *)
(*   R:r#v contains G:g_1#m .. G:g_N#m ; G:g_k#m contains T:t#m ;          *)
(*   T:t#m contains u ; D:d#parents (tuple-to-subject-set) lists N folders *)
(*   of which the k-th grants.                                             *)
(***************************************************************************)
EXTENDS KetoCheck, Json

CONSTANTS Ns, Ends, StrictSet, Emit   \* Ends: only the first and the last storage position grant

UG == <<<<"U","">>, <<"G","m">>, <<"T","m">>>>
Cfg == [U |-> [x \in {} |-> Rel(<<>>, None)],
        T |-> [m |-> Rel(<<<<"U","">>>>, None)],
        G |-> [m |-> Rel(UG, None)],
        R |-> [v |-> Rel(UG, None)],
        D |-> [parents |-> Rel(<<<<"G","">>>>, None),
               view |-> Permit(Or(<<TTU("parents", "m")>>))]]
Obj(i) == "g" \o ToString(i)
Universe(n, k) ==
  [i \in 1..n |-> Tup("R", "r", "v", SS("G", Obj(i), "m"))]
  \o <<Tup("G", Obj(k), "m", SS("T", "t", "m")), Tup("T", "t", "m", Id("u"))>>
  \o [i \in 1..n |-> Tup("D", "d", "parents", SS("G", Obj(i), ""))]
Queries == <<Tup("R", "r", "v", Id("u")), Tup("D", "d", "view", Id("u")), Tup("R", "r", "v", Id("nobody"))>>

VARIABLES n, k, strict, done, bad
vars == <<n, k, strict, done, bad>>
K(nn, kk, st) == LET u == Universe(nn, kk) IN
  [cfg |-> Cfg, strict |-> st, U |-> u, S |-> 1..Len(u), ord |-> [i \in 1..Len(u) |-> i], w |-> 100000,
   vm |-> "scoped", coll |-> TRUE, sc |-> TRUE, fk |-> 0, alias |-> FALSE]
D == 6
Code(r) == IF r.e THEN "E" ELSE CASE r.m = "is" -> "I" [] r.m = "not" -> "N" [] OTHER -> "U"

Init == n \in Ns /\ k \in (IF Ends THEN {1, n} ELSE {1, 2, n \div 2, n - 1, n}) /\ k >= 1 /\ strict \in StrictSet /\ done = FALSE /\ bad = {}
Next == /\ ~done /\ done' = TRUE /\ UNCHANGED <<n, k, strict>>
        /\ LET kk == K(n, k, strict)
               res == [qi \in 1..Len(Queries) |-> [ref |-> RefSem(kk, Queries[qi]), a |-> Code(Engine(AsIs(kk), Queries[qi], D).r)]]
           IN
           /\ bad' = {qi \in 1..Len(Queries) : res[qi].a = "E" \/ ((res[qi].a = "I") # res[qi].ref)}
           /\ Emit => PrintT(ToJson([n |-> n, k |-> k, st |-> strict, q |-> res]))
           /\ (Emit /\ k = 1 /\ ~strict) => PrintT(ToJson([def |-> "wide", cfg |-> Cfg, Q |-> Queries, legacy |-> FALSE]))
Spec == Init /\ [][Next]_vars
ClaimsHold == bad = {}
=============================================================================
