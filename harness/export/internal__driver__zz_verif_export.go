//go:build verif

package driver

import (
	"testing"

	"github.com/ory/keto/ketoctx"
)

// WithContextualizer is added by the /verif overlay (never part of the repository).
func WithContextualizer(c ketoctx.Contextualizer) TestRegistryOption {
	return func(_ testing.TB, r *RegistryDefault) { r.ctxer = c }
}
