package zzverif

import (
	"bytes"
	"context"
	"crypto/sha256"
	"encoding/hex"
	"encoding/json"
	"fmt"
	"github.com/ory/keto/internal/namespace/ast"
	"net/http"
	"net/http/httptest"
	"net/url"
	"os"
	"sort"
	"strings"
	"testing"
	"time"

	"github.com/gofrs/uuid"
	"github.com/ory/x/configx"
	"google.golang.org/grpc/codes"
	"google.golang.org/grpc/status"

	"github.com/ory/keto/internal/check"
	"github.com/ory/keto/internal/driver"
	"github.com/ory/keto/internal/expand"
	"github.com/ory/keto/internal/namespace"
	"github.com/ory/keto/internal/namespace/namespacehandler"
	"github.com/ory/keto/internal/relationtuple"
	"github.com/ory/keto/ketoapi"
	oplpb "github.com/ory/keto/proto/ory/keto/opl/v1alpha1"
	rts "github.com/ory/keto/proto/ory/keto/relation_tuples/v1alpha2"
)

// ---------------------------------------------------------------- two networks on one database

type nidKeyT struct{}

// ctxNetworks lets one registry (one database connection) serve several
// networks: the network id travels in the request context.
type ctxNetworks struct{}

func (ctxNetworks) Network(ctx context.Context, network uuid.UUID) uuid.UUID {
	if n, ok := ctx.Value(nidKeyT{}).(uuid.UUID); ok {
		return n
	}
	return network
}
func (ctxNetworks) Config(_ context.Context, c *configx.Provider) *configx.Provider { return c }

type storeEnv struct {
	t   testing.TB
	reg *driver.RegistryDefault
	rr  http.Handler
	wr  http.Handler
	sr  http.Handler
	rt  interface {
		rts.ReadServiceServer
		rts.WriteServiceServer
	}
	ch   *check.Handler
	eh   rts.ExpandServiceServer
	nids map[string]uuid.UUID
	sym  *symtab
	ns   rts.NamespacesServiceServer
	sx   oplpb.SyntaxServiceServer
	// pre-mapped request of the atomic family
	preIns, preDel []*relationtuple.RelationTuple
	// base context of the requests sent through this environment (nil = Background); the read probes give every probe a deadline
	base context.Context
}

func newStoreEnv(t testing.TB, nss []*namespace.Namespace, seed int64, extra ...driver.TestRegistryOption) *storeEnv {
	opts := append([]driver.TestRegistryOption{driver.WithLogLevel("panic"), driver.WithNamespaces(nss),
		driver.WithContextualizer(ctxNetworks{}),
		driver.WithConfig("limit.max_read_depth", 12)}, extra...)
	reg := driver.NewSqliteTestRegistry(t, false, opts...)
	ctx := context.Background()
	e := &storeEnv{t: t, reg: reg, nids: map[string]uuid.UUID{}, sym: newSymtab(seed)}
	e.rr, e.wr, e.sr = reg.ReadRouter(ctx), reg.WriteRouter(ctx), reg.OPLSyntaxRouter(ctx)
	e.rt = relationtuple.NewHandler(reg)
	e.ch = check.NewHandler(reg)
	e.eh = expand.NewHandler(reg)
	e.nids["A"] = reg.NetworkID(ctx)
	b := uuid.Must(uuid.NewV4())
	now := time.Now().UTC()
	if err := reg.Persister().Connection(ctx).RawQuery("INSERT INTO networks (id, created_at, updated_at) VALUES (?, ?, ?)", b, now, now).Exec(); err != nil {
		t.Fatalf("second network: %v", err)
	}
	e.nids["B"] = b
	return e
}

// envFor wraps an existing registry; the routers and handlers are built here,
// the registry's lazily created singletons are first touched by the requests.
func envFor(t testing.TB, reg *driver.RegistryDefault) *storeEnv {
	ctx := context.Background()
	e := &storeEnv{t: t, reg: reg, nids: map[string]uuid.UUID{}, sym: newSymtab(1)}
	e.rr, e.wr = reg.ReadRouter(ctx), reg.WriteRouter(ctx)
	e.rt = relationtuple.NewHandler(reg)
	e.ch = check.NewHandler(reg)
	e.eh = expand.NewHandler(reg)
	e.nids["A"] = reg.Persister().NetworkID(ctx)
	return e
}

func namespaceHandler(reg *driver.RegistryDefault) rts.NamespacesServiceServer {
	return namespacehandler.New(reg)
}

func (e *storeEnv) ctx(n string) context.Context {
	base := e.base
	if base == nil {
		base = context.Background()
	}
	return context.WithValue(base, nidKeyT{}, e.nids[n])
}

func (e *storeEnv) do(n string, h http.Handler, method, target string, body []byte) (int, []byte) {
	return e.doCtx(e.ctx(n), h, method, target, body)
}

func (e *storeEnv) doCtx(ctx context.Context, h http.Handler, method, target string, body []byte) (int, []byte) {
	rec := httptest.NewRecorder()
	req := httptest.NewRequest(method, target, bytes.NewReader(body)).WithContext(ctx)
	if body != nil {
		req.Header.Set("Content-Type", "application/json")
	}
	h.ServeHTTP(rec, req)
	return rec.Code, rec.Body.Bytes()
}

// ---------------------------------------------------------------- symbolic strings

// symtab instantiates the symbolic names of a specification (o1, u1, r1 ...)
// with concrete strings. Namespaces are configuration names and stay as they
// are. Which concrete string a symbol gets depends on the seed; the mapping
// is injective, and "" stays "".
type symtab struct {
	fwd map[string]string
	rev map[string]string
	// uuids: the names u1, o1, o2 are instantiated with three different spellings of ONE UUID (upper case, lower case,
	// urn:uuid: prefix): as names they are unrelated strings
	uuids bool
}

var symUUIDs = map[string]string{"u1": "6BA7B810-9DAD-11D1-80B4-00C04FD430C8", "o1": "6ba7b810-9dad-11d1-80b4-00c04fd430c8",
	"o2": "urn:uuid:6ba7b810-9dad-11d1-80b4-00c04fd430c8"}

var symPool = [][]string{
	{"%s"},
	{"%s with space", "  %s  "},
	{"%s/ünï-cødé-😀", "%s-é", "%s-é"},
	{"%s:with#sep@chars()", "(%s)", "#%s", "@%s:", "%s#"},
	{"%s\ttab\nnewline", "%s\x00nul"},
	{"%s'\"quotes\\", "%s%%25%%", "%s?a=b&c=d", "%s;--"},
	{"%s" + strings.Repeat("L", 3000)},
	{"null-%s", "%s.true", "0%s"},
}

func newSymtab(seed int64) *symtab {
	return &symtab{fwd: map[string]string{}, rev: map[string]string{}}
}

func (s *symtab) seedPick(seed int64, sym string) string {
	h := sha256.Sum256([]byte(fmt.Sprintf("%d/%s", seed, sym)))
	class := symPool[int(h[0])%len(symPool)]
	return fmt.Sprintf(class[int(h[1])%len(class)], sym)
}

var symSeed int64 = 1

func (s *symtab) inst(sym string) string {
	if sym == "" {
		return ""
	}
	if v, ok := s.fwd[sym]; ok {
		return v
	}
	if u, ok := symUUIDs[sym]; ok && s.uuids {
		s.fwd[sym], s.rev[u] = u, sym
		return u
	}
	v := s.seedPick(symSeed, sym)
	s.fwd[sym], s.rev[v] = v, sym
	return v
}

func (s *symtab) back(v string) string {
	if v == "" {
		return ""
	}
	if sym, ok := s.rev[v]; ok {
		return sym
	}
	return "?" + v
}

// instTuple maps a specification tuple to the API tuple with concrete strings
// (namespaces unchanged); nil subject when the spec says <<"none">>.
func (e *storeEnv) instTuple(t jtuple) *ketoapi.RelationTuple {
	rt := &ketoapi.RelationTuple{Namespace: jstr(t[0]), Object: e.sym.inst(jstr(t[1])), Relation: e.sym.inst(jstr(t[2]))}
	sub := jsub(t[3])
	switch sub[0] {
	case "id":
		rt.SubjectID = ptr(e.sym.inst(sub[1]))
	case "set":
		rt.SubjectSet = &ketoapi.SubjectSet{Namespace: sub[1], Object: e.sym.inst(sub[2]), Relation: e.sym.inst(sub[3])}
	}
	return rt
}

func ptr[T any](v T) *T { return &v }

// symTuple maps an API tuple back to the specification's JSON form.
func (e *storeEnv) symTuple(rt *ketoapi.RelationTuple) []any {
	var sub []any
	switch {
	case rt.SubjectID != nil:
		sub = []any{"id", e.sym.back(*rt.SubjectID)}
	case rt.SubjectSet != nil:
		sub = []any{"set", rt.SubjectSet.Namespace, e.sym.back(rt.SubjectSet.Object), e.sym.back(rt.SubjectSet.Relation)}
	default:
		sub = []any{"none"}
	}
	return []any{rt.Namespace, e.sym.back(rt.Object), e.sym.back(rt.Relation), sub}
}

// ---------------------------------------------------------------- queries

type jquery []json.RawMessage // [ns|"-", obj|"-", rel|"-", subject|["nil"]]

func (e *storeEnv) instQuery(q jquery) (url.Values, *rts.RelationQuery) {
	v := url.Values{}
	pq := &rts.RelationQuery{}
	if s := jstr(q[0]); s != "-" {
		v.Set("namespace", s)
		pq.Namespace = ptr(s)
	}
	if s := jstr(q[1]); s != "-" {
		v.Set("object", e.sym.inst(s))
		pq.Object = ptr(e.sym.inst(s))
	}
	if s := jstr(q[2]); s != "-" {
		v.Set("relation", e.sym.inst(s))
		pq.Relation = ptr(e.sym.inst(s))
	}
	sub := jsub(q[3])
	switch sub[0] {
	case "id":
		v.Set("subject_id", e.sym.inst(sub[1]))
		pq.Subject = rts.NewSubjectID(e.sym.inst(sub[1]))
	case "set":
		v.Set("subject_set.namespace", sub[1])
		v.Set("subject_set.object", e.sym.inst(sub[2]))
		v.Set("subject_set.relation", e.sym.inst(sub[3]))
		pq.Subject = rts.NewSubjectSet(sub[1], e.sym.inst(sub[2]), e.sym.inst(sub[3]))
	}
	return v, pq
}

// listAll follows next_page_token to the end; returns the multiset in spec form.
func (e *storeEnv) listAllREST(n string, q url.Values, pageSize int) (map[string]int, int, string) {
	out := map[string]int{}
	token := ""
	for pages := 0; ; pages++ {
		qq := url.Values{}
		for k, v := range q {
			qq[k] = v
		}
		if pageSize > 0 {
			qq.Set("page_size", fmt.Sprint(pageSize))
		}
		if token != "" {
			qq.Set("page_token", token)
		}
		code, body := e.do(n, e.rr, "GET", "/relation-tuples?"+qq.Encode(), nil)
		if code != 200 {
			return nil, code, ""
		}
		var resp ketoapi.GetResponse
		if err := json.Unmarshal(body, &resp); err != nil {
			return nil, -1, "bad json: " + err.Error()
		}
		if pageSize > 0 && len(resp.RelationTuples) > pageSize {
			return nil, -2, fmt.Sprintf("page of %d items with page_size %d", len(resp.RelationTuples), pageSize)
		}
		for _, rt := range resp.RelationTuples {
			b, _ := json.Marshal(e.symTuple(rt))
			out[string(b)]++
		}
		if resp.NextPageToken == "" {
			return out, 200, ""
		}
		if len(resp.RelationTuples) == 0 || pages > 10000 {
			return nil, -3, "empty page with a next token / endless pagination"
		}
		token = resp.NextPageToken
	}
}

func (e *storeEnv) listAllGRPC(n string, pq *rts.RelationQuery, pageSize int) (map[string]int, bool, string) {
	out := map[string]int{}
	token := ""
	for pages := 0; ; pages++ {
		resp, err := e.rt.ListRelationTuples(e.ctx(n), &rts.ListRelationTuplesRequest{RelationQuery: pq, PageSize: int32(pageSize), PageToken: token})
		if err != nil {
			return nil, false, status.Code(err).String()
		}
		if pageSize > 0 && len(resp.RelationTuples) > pageSize {
			return nil, false, "page too large"
		}
		for _, pt := range resp.RelationTuples {
			rt := (&ketoapi.RelationTuple{}).FromProto(pt)
			b, _ := json.Marshal(e.symTuple(rt))
			out[string(b)]++
		}
		if resp.NextPageToken == "" {
			return out, true, ""
		}
		if len(resp.RelationTuples) == 0 || pages > 10000 {
			return nil, false, "empty page with a next token / endless pagination"
		}
		token = resp.NextPageToken
	}
}

func bagList(m map[string]int) []any {
	keys := make([]string, 0, len(m))
	for k := range m {
		keys = append(keys, k)
	}
	sort.Strings(keys)
	out := make([]any, 0, len(keys))
	for _, k := range keys {
		out = append(out, []any{json.RawMessage(k), m[k]})
	}
	return out
}

// dumpHash is a byte-level digest of both tables (all networks).
func (e *storeEnv) dumpHash() string {
	c := e.reg.Persister().Connection(context.Background())
	h := sha256.New()
	for _, q := range []string{
		`SELECT (shard_id || '|' || nid || '|' || namespace || '|' || object || '|' || relation || '|' || COALESCE(subject_id, 'NULL') || '|' ||
			COALESCE(subject_set_namespace, 'NULL') || '|' || COALESCE(subject_set_object, 'NULL') || '|' || COALESCE(subject_set_relation, 'NULL') || '|' || commit_time) AS line
			FROM keto_relation_tuples ORDER BY shard_id`,
		"SELECT (id || '|' || hex(string_representation)) AS line FROM keto_uuid_mappings ORDER BY id"} {
		var rows []struct {
			Line string `db:"line"`
		}
		if err := c.RawQuery(q).All(&rows); err != nil {
			e.t.Fatalf("dump: %v", err)
		}
		for _, r := range rows {
			h.Write([]byte(r.Line))
			h.Write([]byte{10})
		}
		fmt.Fprint(h, "##")
	}
	return hex.EncodeToString(h.Sum(nil))[:16]
}

// rawCount counts rows per network directly in SQL.
func (e *storeEnv) rawCount(n string) int {
	var cnt int
	c := e.reg.Persister().Connection(context.Background())
	if err := c.RawQuery("SELECT COUNT(*) FROM keto_relation_tuples WHERE nid = ?", e.nids[n]).First(&cnt); err != nil {
		e.t.Fatalf("count: %v", err)
	}
	return cnt
}

// ---------------------------------------------------------------- history replay

type storeStep struct {
	Op    string            `json:"op"`
	Nid   string            `json:"nid"`
	Args  []json.RawMessage `json:"args"`
	Fault bool              `json:"fault"` // the first statement that writes relationships fails
}

type storeHistory struct {
	Run   int         `json:"run"`
	Steps []storeStep `json:"steps"`
}

type storeIn struct {
	Histories []storeHistory `json:"histories"`
	PageSize  int            `json:"page_size"`
	Mirror    bool           `json:"mirror"` // seed a third network with rows that mirror network A's UUIDs
	Probes    bool           `json:"probes"` // after every step run a battery of read requests and compare dumps
	Universe  []jtuple       `json:"universe"`
}

type storeStepOut struct {
	Ok        bool           `json:"ok"`
	Transport string         `json:"transport"`
	Status    string         `json:"status"`
	Reply     []any          `json:"reply"`
	After     map[string]any `json:"after"`
	Raw       map[string]int `json:"raw"`
	FaultHit  bool           `json:"fault_hit"`
	ROChanged bool           `json:"ro_changed"` // a read operation changed the byte-level dump
	MChanged  bool           `json:"m_changed"`  // the mirror network's rows changed
	Probes    int            `json:"probes"`
	ProbeBad  []string       `json:"probe_bad,omitempty"` // read requests that changed the dump
	Note      string         `json:"note,omitempty"`
}

func init() { families["store"] = famStore }

func storeNamespaces() []*namespace.Namespace {
	// n1 and n2 carry no configuration; n3 declares r1 and r2 := r2 or r1 (Store.tla). Relation names are symbols of the
	// specification: the configuration must name the concrete strings they are instantiated with.
	sym := newSymtab(0)
	r1, r2 := sym.inst("r1"), sym.inst("r2")
	return []*namespace.Namespace{{Name: "n1"}, {Name: "n2"}, {Name: "n3", Relations: []ast.Relation{
		{Name: r1},
		{Name: r2, SubjectSetRewrite: &ast.SubjectSetRewrite{Children: ast.Children{&ast.ComputedSubjectSet{Relation: r1}}}},
	}}}
}

func (e *storeEnv) protoTuple(rt *ketoapi.RelationTuple) *rts.RelationTuple {
	if rt.SubjectID == nil && rt.SubjectSet == nil {
		return &rts.RelationTuple{Namespace: rt.Namespace, Object: rt.Object, Relation: rt.Relation}
	}
	return rt.ToProto()
}

func (e *storeEnv) step(si int, st storeStep, pageSize int) storeStepOut {
	o := storeStepOut{After: map[string]any{}, Raw: map[string]int{}}
	rest := si%2 == 0
	n := st.Nid
	var before string
	if st.Op == "list" || st.Op == "check" {
		before = e.dumpHash()
	}
	if st.Fault {
		sqlCtl.beginTableFault("keto_relation_tuples")
		defer func() {}()
	}
	switch st.Op {
	case "create":
		var t jtuple
		json.Unmarshal(st.Args[0], &t)
		rt := e.instTuple(t)
		if rest {
			b, _ := json.Marshal(rt)
			code, _ := e.do(n, e.wr, "PUT", "/admin/relation-tuples", b)
			o.Ok, o.Transport, o.Status = code == 201, "rest", fmt.Sprint(code)
		} else {
			_, err := e.rt.TransactRelationTuples(e.ctx(n), &rts.TransactRelationTuplesRequest{RelationTupleDeltas: []*rts.RelationTupleDelta{
				{Action: rts.RelationTupleDelta_ACTION_INSERT, RelationTuple: e.protoTuple(rt)}}})
			o.Ok, o.Transport, o.Status = err == nil, "grpc", status.Code(err).String()
		}
	case "transact":
		var ins, del []jtuple
		json.Unmarshal(st.Args[0], &ins)
		json.Unmarshal(st.Args[1], &del)
		if rest {
			var deltas []*ketoapi.PatchDelta
			for _, x := range ins {
				deltas = append(deltas, &ketoapi.PatchDelta{Action: ketoapi.ActionInsert, RelationTuple: e.instTuple(x)})
			}
			for _, x := range del {
				deltas = append(deltas, &ketoapi.PatchDelta{Action: ketoapi.ActionDelete, RelationTuple: e.instTuple(x)})
			}
			if deltas == nil {
				deltas = []*ketoapi.PatchDelta{}
			}
			b, _ := json.Marshal(deltas)
			code, _ := e.do(n, e.wr, "PATCH", "/admin/relation-tuples", b)
			o.Ok, o.Transport, o.Status = code == 204, "rest", fmt.Sprint(code)
		} else {
			req := &rts.TransactRelationTuplesRequest{}
			for _, x := range ins {
				req.RelationTupleDeltas = append(req.RelationTupleDeltas, &rts.RelationTupleDelta{Action: rts.RelationTupleDelta_ACTION_INSERT, RelationTuple: e.protoTuple(e.instTuple(x))})
			}
			for _, x := range del {
				req.RelationTupleDeltas = append(req.RelationTupleDeltas, &rts.RelationTupleDelta{Action: rts.RelationTupleDelta_ACTION_DELETE, RelationTuple: e.protoTuple(e.instTuple(x))})
			}
			_, err := e.rt.TransactRelationTuples(e.ctx(n), req)
			o.Ok, o.Transport, o.Status = err == nil, "grpc", status.Code(err).String()
		}
	case "deleteq", "list":
		var q jquery
		json.Unmarshal(st.Args[0], &q)
		v, pq := e.instQuery(q)
		if st.Op == "deleteq" {
			// REST delete insists on a namespace key; queries without one go over gRPC
			if rest && v.Has("namespace") {
				code, _ := e.do(n, e.wr, "DELETE", "/admin/relation-tuples?"+v.Encode(), nil)
				o.Ok, o.Transport, o.Status = code == 204, "rest", fmt.Sprint(code)
			} else {
				_, err := e.rt.DeleteRelationTuples(e.ctx(n), &rts.DeleteRelationTuplesRequest{RelationQuery: pq})
				o.Ok, o.Transport, o.Status = err == nil, "grpc", status.Code(err).String()
			}
		} else {
			if rest {
				m, code, note := e.listAllREST(n, v, pageSize)
				o.Ok, o.Transport, o.Status, o.Note = code == 200, "rest", fmt.Sprint(code), note
				o.Reply = bagList(m)
			} else {
				m, ok, note := e.listAllGRPC(n, pq, pageSize)
				o.Ok, o.Transport, o.Status, o.Note = ok, "grpc", note, note
				o.Reply = bagList(m)
			}
		}
	case "check":
		var t jtuple
		json.Unmarshal(st.Args[0], &t)
		rt := e.instTuple(t)
		if rest {
			code, body := e.do(n, e.rr, "GET", "/relation-tuples/check/openapi?"+rt.ToURLQuery().Encode(), nil)
			var resp struct {
				Allowed bool `json:"allowed"`
			}
			json.Unmarshal(body, &resp)
			o.Ok, o.Transport, o.Status = code == 200, "rest", fmt.Sprint(code)
			if resp.Allowed {
				o.Reply = []any{"allowed"}
			}
		} else {
			resp, err := e.ch.Check(e.ctx(n), &rts.CheckRequest{Tuple: e.protoTuple(rt)})
			// over gRPC an unknown namespace is NotFound; the decision is "denied" either way
			o.Ok, o.Transport, o.Status = err == nil || status.Code(err) == codes.NotFound, "grpc", status.Code(err).String()
			if (rt.SubjectID == nil && rt.SubjectSet == nil) && err != nil {
				o.Ok = false
			}
			if err == nil && resp.Allowed {
				o.Reply = []any{"allowed"}
			}
		}
	default:
		e.t.Fatalf("unknown op %q", st.Op)
	}
	if st.Fault {
		o.FaultHit = sqlCtl.endTableFault()
	}
	if before != "" && e.dumpHash() != before {
		o.ROChanged = true
	}
	for _, net := range []string{"A", "B"} {
		m, code, note := e.listAllREST(net, url.Values{}, 3)
		if code != 200 {
			o.Note += fmt.Sprintf(" list-all(%s) failed: %d %s", net, code, note)
		}
		o.After[net] = bagList(m)
		o.Raw[net] = e.rawCount(net)
	}
	return o
}

// nestedProbe: inside a transaction begun for network A, one step is done for network B (the network comes from the
// request context; an embedding application may well do this when it moves relationships between tenants). The step
// must read and write B, and only B.
func (e *storeEnv) nestedProbe() []string {
	var bad []string
	ctxA, nidB := e.ctx("A"), e.nids["B"]
	countOf := func(n string) int {
		var c int
		if err := e.reg.Persister().Connection(context.Background()).RawQuery("SELECT COUNT(*) FROM keto_relation_tuples WHERE nid = ?", e.nids[n]).First(&c); err != nil {
			e.t.Fatalf("count: %v", err)
		}
		return c
	}
	a0, b0 := countOf("A"), countOf("B")
	rt := &ketoapi.RelationTuple{Namespace: "n1", Object: "nested-object", Relation: "nested", SubjectID: ptr("nested-subject")}
	err := e.reg.Persister().Transaction(ctxA, func(tx context.Context) error {
		txB := context.WithValue(tx, nidKeyT{}, nidB)
		its, err := e.reg.Mapper().FromTuple(txB, rt)
		if err != nil {
			return err
		}
		if err := e.reg.RelationTupleManager().WriteRelationTuples(txB, its...); err != nil {
			return err
		}
		ok, err := e.reg.RelationTupleManager().ExistsRelationTuples(txB, its[0].ToQuery())
		if err != nil {
			return err
		}
		if !ok {
			bad = append(bad, "a relationship written for network B inside a transaction begun for network A is not found in B")
		}
		return nil
	})
	if err != nil {
		return append(bad, "nested step failed: "+err.Error())
	}
	if a1, b1 := countOf("A"), countOf("B"); a1 != a0 || b1 != b0+1 {
		bad = append(bad, fmt.Sprintf("a write for network B inside a transaction begun for network A changed the row counts A %d->%d, B %d->%d", a0, a1, b0, b1))
	}
	// remove it again (B only)
	if err := e.reg.Persister().Connection(context.Background()).RawQuery("DELETE FROM keto_relation_tuples WHERE nid IN (?, ?) AND relation = 'nested'", e.nids["A"], nidB).Exec(); err != nil {
		e.t.Fatalf("cleanup: %v", err)
	}
	return bad
}

// seedMirror creates network M whose rows carry exactly the namespaces,
// relations and UUIDs that network A uses for the universe, so that a statement
// that forgets its nid predicate touches or returns them.
func (e *storeEnv) seedMirror(universe []jtuple) {
	ctx := context.Background()
	c := e.reg.Persister().Connection(ctx)
	m := uuid.Must(uuid.NewV4())
	now := time.Now().UTC()
	if err := c.RawQuery("INSERT INTO networks (id, created_at, updated_at) VALUES (?, ?, ?)", m, now, now).Exec(); err != nil {
		e.t.Fatalf("mirror network: %v", err)
	}
	e.nids["M"] = m
	a := e.nids["A"]
	for _, ut := range universe {
		rt := e.instTuple(ut)
		if rt.SubjectID == nil && rt.SubjectSet == nil {
			continue
		}
		var sid, ssn, sso, ssr any
		if rt.SubjectID != nil {
			sid = uuid.NewV5(a, *rt.SubjectID)
		} else {
			ssn, sso, ssr = rt.SubjectSet.Namespace, uuid.NewV5(a, rt.SubjectSet.Object), rt.SubjectSet.Relation
		}
		if err := c.RawQuery(`INSERT INTO keto_relation_tuples (shard_id, nid, namespace, object, relation, subject_id, subject_set_namespace, subject_set_object, subject_set_relation, commit_time)
			VALUES (?, ?, ?, ?, ?, ?, ?, ?, ?, ?)`, uuid.Must(uuid.NewV4()), m, rt.Namespace, uuid.NewV5(a, rt.Object), rt.Relation, sid, ssn, sso, ssr, now).Exec(); err != nil {
			e.t.Fatalf("mirror row: %v", err)
		}
	}
}

func (e *storeEnv) mirrorHash() string {
	c := e.reg.Persister().Connection(context.Background())
	var rows []struct {
		Line string `db:"line"`
	}
	if err := c.RawQuery(`SELECT (shard_id || '|' || namespace || '|' || object || '|' || relation || '|' || COALESCE(subject_id, 'NULL') || '|' ||
		COALESCE(subject_set_object, 'NULL')) AS line FROM keto_relation_tuples WHERE nid = ? ORDER BY shard_id`, e.nids["M"]).All(&rows); err != nil {
		e.t.Fatalf("mirror dump: %v", err)
	}
	h := sha256.New()
	for _, r := range rows {
		h.Write([]byte(r.Line + "\n"))
	}
	return fmt.Sprintf("%d:%x", len(rows), h.Sum(nil)[:6])
}

var probeTimeouts, probeBads int

// readProbes sends read and syntax requests (known and never-seen names, and
// write methods on the read and syntax routers) and reports those after which
// the byte-level dump of the database differs.
func (e *storeEnv) readProbes(n string, k int) (int, []string) {
	fresh := fmt.Sprintf("never-seen-%d-%s", k, strings.Repeat("x", k%7))
	q := url.Values{"namespace": {"n1"}, "object": {fresh}, "relation": {"r-" + fresh}, "subject_id": {"s-" + fresh}}
	qs := url.Values{"namespace": {"n2"}, "object": {fresh}, "relation": {""}, "subject_set.namespace": {"n1"}, "subject_set.object": {"o-" + fresh}, "subject_set.relation": {"rr"}}
	body, _ := json.Marshal(map[string]any{"namespace": "n1", "object": fresh, "relation": "r", "subject_id": "p-" + fresh})
	batch, _ := json.Marshal(map[string]any{"tuples": []any{map[string]any{"namespace": "n1", "object": fresh, "relation": "r", "subject_id": "b-" + fresh},
		map[string]any{"namespace": "nope", "object": fresh, "relation": "r", "subject_set": map[string]any{"namespace": "n2", "object": "bo-" + fresh, "relation": ""}}}})
	// batches of valid relationships only, with never-seen names, on both sides of the batch parallelisation limit (5) up to the size limit (10)
	validBatch := func(sz int, tag string) ([]byte, []*rts.RelationTuple) {
		var js []any
		var ps []*rts.RelationTuple
		for i := 0; i < sz; i++ {
			o, sub := fmt.Sprintf("%s-o%d-%s", tag, i, fresh), fmt.Sprintf("%s-s%d-%s", tag, i, fresh)
			if i%2 == 0 {
				js = append(js, map[string]any{"namespace": "n1", "object": o, "relation": "r", "subject_id": sub})
				ps = append(ps, &rts.RelationTuple{Namespace: "n1", Object: o, Relation: "r", Subject: rts.NewSubjectID(sub)})
			} else {
				js = append(js, map[string]any{"namespace": "n2", "object": o, "relation": "r", "subject_set": map[string]any{"namespace": "n1", "object": sub, "relation": "m"}})
				ps = append(ps, &rts.RelationTuple{Namespace: "n2", Object: o, Relation: "r", Subject: rts.NewSubjectSet("n1", sub, "m")})
			}
		}
		b, _ := json.Marshal(map[string]any{"tuples": js})
		return b, ps
	}
	type probe struct {
		name string
		f    func()
	}
	var sizedBatches []probe
	for _, sz := range []int{5, 6, 10} {
		sz := sz
		sizedBatches = append(sizedBatches,
			probe{fmt.Sprintf("POST batch check of %d valid unseen", sz), func() {
				b, _ := validBatch(sz, "rb")
				e.do(n, e.rr, "POST", "/relation-tuples/batch/check", b)
			}},
			probe{fmt.Sprintf("gRPC batch check of %d valid unseen", sz), func() {
				_, ps := validBatch(sz, "gb")
				e.ch.BatchCheck(e.ctx(n), &rts.BatchCheckRequest{Tuples: ps})
			}})
	}
	probes := []probe{
		{"GET list unseen", func() { e.do(n, e.rr, "GET", "/relation-tuples?"+q.Encode(), nil) }},
		{"GET list unseen subject set", func() { e.do(n, e.rr, "GET", "/relation-tuples?"+qs.Encode(), nil) }},
		{"GET check unseen", func() { e.do(n, e.rr, "GET", "/relation-tuples/check?"+q.Encode(), nil) }},
		{"GET check/openapi unseen", func() { e.do(n, e.rr, "GET", "/relation-tuples/check/openapi?"+qs.Encode(), nil) }},
		{"POST check unseen", func() { e.do(n, e.rr, "POST", "/relation-tuples/check", body) }},
		{"POST check/openapi unseen", func() { e.do(n, e.rr, "POST", "/relation-tuples/check/openapi", body) }},
		{"POST batch check unseen", func() { e.do(n, e.rr, "POST", "/relation-tuples/batch/check", batch) }},
		{"GET expand unseen", func() {
			e.do(n, e.rr, "GET", "/relation-tuples/expand?"+url.Values{"namespace": {"n1"}, "object": {fresh}, "relation": {"r"}, "max-depth": {"3"}}.Encode(), nil)
		}},
		{"GET namespaces", func() { e.do(n, e.rr, "GET", "/namespaces", nil) }},
		{"POST syntax check", func() { e.do(n, e.sr, "POST", "/opl/syntax/check", []byte("class "+"X"+" implements Namespace {}")) }},
		{"PUT on read router", func() { e.do(n, e.rr, "PUT", "/admin/relation-tuples", body) }},
		{"PATCH on read router", func() {
			e.do(n, e.rr, "PATCH", "/admin/relation-tuples", []byte(`[{"action":"insert","relation_tuple":`+string(body)+`}]`))
		}},
		{"DELETE on read router", func() { e.do(n, e.rr, "DELETE", "/admin/relation-tuples?namespace=n1", nil) }},
		{"PUT on syntax router", func() { e.do(n, e.sr, "PUT", "/admin/relation-tuples", body) }},
		{"DELETE on syntax router", func() { e.do(n, e.sr, "DELETE", "/admin/relation-tuples?namespace=n1", nil) }},
		{"gRPC list unseen", func() {
			e.rt.ListRelationTuples(e.ctx(n), &rts.ListRelationTuplesRequest{RelationQuery: &rts.RelationQuery{Namespace: ptr("n1"), Object: ptr(fresh), Subject: rts.NewSubjectID("g-" + fresh)}})
		}},
		{"gRPC check unseen", func() {
			e.ch.Check(e.ctx(n), &rts.CheckRequest{Tuple: &rts.RelationTuple{Namespace: "n1", Object: fresh, Relation: "r", Subject: rts.NewSubjectSet("n2", "go-"+fresh, "")}})
		}},
		{"gRPC batch check unseen", func() {
			e.ch.BatchCheck(e.ctx(n), &rts.BatchCheckRequest{Tuples: []*rts.RelationTuple{{Namespace: "n2", Object: fresh, Relation: "r", Subject: rts.NewSubjectID("gb-" + fresh)}}})
		}},
		{"gRPC expand unseen", func() {
			e.eh.Expand(e.ctx(n), &rts.ExpandRequest{Subject: rts.NewSubjectSet("n1", "ge-"+fresh, "r"), MaxDepth: 3})
		}},
	}
	// every method on every path of the read port (and of the syntax port), with a query that matches stored relationships and
	// with the bodies the write API takes: whatever a route answers there, nothing stored changes
	for _, rt := range []struct {
		name string
		h    http.Handler
	}{{"read", e.rr}, {"syntax", e.sr}} {
		rt := rt
		for _, path := range []string{"/relation-tuples", "/relation-tuples/check", "/relation-tuples/check/openapi", "/relation-tuples/batch/check",
			"/relation-tuples/expand", "/namespaces", "/admin/relation-tuples", "/opl/syntax/check"} {
			path := path
			for _, m := range []string{"PUT", "PATCH", "DELETE", "POST", "HEAD", "OPTIONS"} {
				m := m
				if rt.name == "syntax" && m != "DELETE" && m != "PUT" {
					continue
				}
				probes = append(probes, probe{m + " " + path + " on the " + rt.name + " port", func() {
					e.do(n, rt.h, m, path+"?namespace=n1", nil)
					e.do(n, rt.h, m, path+"?namespace=n1&relation=r", body)
					e.do(n, rt.h, m, path, []byte(`[{"action":"delete","relation_tuple":`+string(body)+`},{"action":"insert","relation_tuple":`+string(body)+`}]`))
				}})
			}
		}
	}
	probes = append(probes, sizedBatches...)
	// names that are hostile to a statement built by concatenation: quotes, comment markers and line breaks followed by SQL
	for hi, hostile := range []string{
		"x\n; DELETE FROM keto_relation_tuples; --",
		"x\r\n; DELETE FROM keto_uuid_mappings --",
		"x'; DELETE FROM keto_relation_tuples; --",
		"x\"; DELETE FROM networks; --",
		"x */ ; DELETE FROM keto_relation_tuples; /*",
	} {
		hostile := hostile
		field := hi % 3 // which field carries it: relation, object, subject
		mk := func() (string, string, string) {
			o, r, sub := "hostile-o-"+fresh, "hostile-r", "hostile-s-"+fresh
			switch field {
			case 0:
				r = hostile
			case 1:
				o = hostile
			default:
				sub = hostile
			}
			return o, r, sub
		}
		probes = append(probes,
			probe{fmt.Sprintf("GET check, hostile name %d", hi), func() {
				o, r, sub := mk()
				e.do(n, e.rr, "GET", "/relation-tuples/check/openapi?"+url.Values{"namespace": {"n1"}, "object": {o}, "relation": {r}, "subject_id": {sub}}.Encode(), nil)
			}},
			probe{fmt.Sprintf("POST batch check, hostile name %d", hi), func() {
				o, r, sub := mk()
				b, _ := json.Marshal(map[string]any{"tuples": []any{map[string]any{"namespace": "n1", "object": o, "relation": r,
					"subject_set": map[string]any{"namespace": "n2", "object": sub, "relation": r}}}})
				e.do(n, e.rr, "POST", "/relation-tuples/batch/check", b)
			}},
			probe{fmt.Sprintf("gRPC check, hostile name %d", hi), func() {
				o, r, sub := mk()
				e.ch.Check(e.ctx(n), &rts.CheckRequest{Tuple: &rts.RelationTuple{Namespace: "n1", Object: o, Relation: r, Subject: rts.NewSubjectID(sub)}})
			}},
			probe{fmt.Sprintf("GET expand and list, hostile name %d", hi), func() {
				o, r, sub := mk()
				e.do(n, e.rr, "GET", "/relation-tuples/expand?"+url.Values{"namespace": {"n1"}, "object": {o}, "relation": {r}, "max-depth": {"3"}}.Encode(), nil)
				e.do(n, e.rr, "GET", "/relation-tuples?"+url.Values{"namespace": {"n1"}, "object": {o}, "relation": {r}, "subject_id": {sub}}.Encode(), nil)
			}})
	}
	var bad []string
	before := e.dumpHash()
	for _, p := range probes {
		if os.Getenv("VERIF_DEBUG_PROBES") != "" {
			fmt.Fprintln(os.Stderr, "probe:", p.name)
		}
		// every probe runs under a deadline: a request that does not come back is abandoned (its context ends) and reported
		pctx, pcancel := context.WithTimeout(context.Background(), 5*time.Second)
		e.base = pctx
		sqlCtl.keepSQL = true
		sqlCtl.begin(0, 0)
		done := make(chan struct{})
		go func() {
			defer close(done)
			defer func() { recover() }() // crashes are C13's business
			p.f()
		}()
		if probeTimeouts >= 3 || probeBads >= 12 {
			pcancel()
			e.base = nil
			break // the point is made; every further stuck request would cost seconds
		}
		select {
		case <-done:
		case <-time.After(8 * time.Second):
			bad = append(bad, p.name+" (did not return within 8 s)")
			probeTimeouts++
		}
		pcancel()
		e.base = nil
		// the statements the request sent to the database: none of them may change data (whether or not it got through)
		for _, st := range sqlCtl.end() {
			if st.Kind != "SELECT" && st.Kind != "BEGIN" && st.Kind != "COMMIT" && st.Kind != "ROLLBACK" && st.Kind != "OTHER" {
				bad = append(bad, fmt.Sprintf("%s (sent a %s statement on %s to the database)", p.name, st.Kind, st.Table))
				probeBads++
				break
			}
			if w := sqlWrites(st.SQL); len(w) > 0 && st.Kind == "SELECT" {
				bad = append(bad, fmt.Sprintf("%s (sent a statement to the database that carries %.80q)", p.name, w[0]))
				probeBads++
				break
			}
		}
		sqlCtl.keepSQL = false
		if h := e.dumpHash(); h != before {
			bad = append(bad, p.name)
			probeBads++
			before = h
		}
	}
	return len(probes), bad
}

func famStore(t *testing.T) {
	var in storeIn
	readJSON(*fIn, &in)
	out := newNDWriter(*fOut)
	defer out.close()
	si, sn := shard()
	symSeed = *fSeed
	for hi, h := range in.Histories {
		if hi%sn != si {
			continue
		}
		func() {
			t.Run(fmt.Sprintf("h%d", h.Run), func(t *testing.T) {
				e := newStoreEnv(t, storeNamespaces(), *fSeed)
				e.sym.uuids = h.Run%4 == 3
				mh := ""
				if in.Mirror {
					e.seedMirror(in.Universe)
					mh = e.mirrorHash()
				}
				var steps []storeStepOut
				for i, st := range h.Steps {
					so := e.step(i+h.Run, st, in.PageSize)
					if in.Mirror {
						if h2 := e.mirrorHash(); h2 != mh {
							so.MChanged, mh = true, h2
						}
					}
					if in.Probes {
						so.Probes, so.ProbeBad = e.readProbes(st.Nid, i)
					}
					steps = append(steps, so)
				}
				var nested []string
				if in.Mirror {
					nested = e.nestedProbe()
				}
				out.write(map[string]any{"h": hi, "run": h.Run, "steps": steps, "symbols": e.sym.fwd, "nested": nested})
			})
		}()
	}
}
