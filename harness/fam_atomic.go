package zzverif

import (
	"context"
	"crypto/sha256"
	"encoding/json"
	"fmt"
	"net/url"
	"os"
	"os/exec"
	"sort"
	"strings"
	"sync"
	"testing"
	"time"

	"github.com/gofrs/uuid"
	"google.golang.org/grpc/status"

	"github.com/ory/keto/internal/driver"
	"github.com/ory/keto/internal/relationtuple"
	"github.com/ory/keto/internal/x/dbx"
	"github.com/ory/keto/ketoapi"
	rts "github.com/ory/keto/proto/ory/keto/relation_tuples/v1alpha2"
)

// C05: multi-relationship writes under failing statements, crashes and concurrent readers.

type atomicCase struct {
	ID     string `json:"id"`
	Via    string `json:"via"`    // manager-transact | manager-write | manager-delete | rest-patch | grpc-transact | rest-delete-query | grpc-delete-query
	NIns   int    `json:"nins"`   // relationships to insert
	NDel   int    `json:"ndel"`   // relationships to delete (present before)
	BadIns int    `json:"badins"` // 0 = none, else 1-based position of an invalid element among the inserts
	BadDel int    `json:"baddel"`
	BadHow string `json:"badhow"` // nosubject | unknownns
	Crash  bool   `json:"crash"`  // also enumerate crash points (child processes, file database)
	MaxK   int    `json:"maxk"`   // limit on enumerated statement positions (0 = all)
}

type atomicIn struct {
	Cases   []atomicCase `json:"cases"`
	Readers int          `json:"readers"` // seconds of reader/writer toggling (0 = none)
}

func atomicTuple(kind string, i int) *ketoapi.RelationTuple {
	rt := &ketoapi.RelationTuple{Namespace: "n1", Object: fmt.Sprintf("%s-obj-%d", kind, i%17), Relation: "r"}
	if i%3 == 0 {
		rt.SubjectSet = &ketoapi.SubjectSet{Namespace: "n2", Object: fmt.Sprintf("%s-sso-%d", kind, i), Relation: "m"}
	} else {
		rt.SubjectID = ptr(fmt.Sprintf("%s-sub-%d", kind, i))
	}
	return rt
}

// logicalDump lists the relationships of network A (decoded through the
// mapping table), sorted: shard ids and commit times are not part of it.
func (e *storeEnv) logicalDump() ([]string, string) {
	c := e.reg.Persister().Connection(context.Background())
	var rows []struct {
		Line string `db:"line"`
	}
	q := `SELECT (t.namespace || '|' || COALESCE(o.string_representation, '?' || t.object) || '|' || t.relation || '|' ||
		COALESCE(s.string_representation, '') || '|' || COALESCE(t.subject_set_namespace, '') || '|' ||
		COALESCE(so.string_representation, '') || '|' || COALESCE(t.subject_set_relation, '')) AS line
		FROM keto_relation_tuples t
		LEFT JOIN keto_uuid_mappings o ON o.id = t.object
		LEFT JOIN keto_uuid_mappings s ON s.id = t.subject_id
		LEFT JOIN keto_uuid_mappings so ON so.id = t.subject_set_object
		WHERE t.nid = ?`
	for try := 0; ; try++ {
		err := c.RawQuery(q, e.nids["A"]).All(&rows)
		if err == nil {
			break
		}
		if try > 500 {
			e.t.Fatalf("logical dump: %v", err)
		}
		time.Sleep(2 * time.Millisecond)
	}
	lines := make([]string, len(rows))
	for i, r := range rows {
		lines[i] = r.Line
	}
	sort.Strings(lines)
	h := sha256.Sum256([]byte(strings.Join(lines, "\n")))
	return lines, fmt.Sprintf("%d:%x", len(lines), h[:8])
}

func tupleLine(rt *ketoapi.RelationTuple) string {
	if rt.SubjectID != nil {
		return fmt.Sprintf("%s|%s|%s|%s|||", rt.Namespace, rt.Object, rt.Relation, *rt.SubjectID)
	}
	return fmt.Sprintf("%s|%s|%s||%s|%s|%s", rt.Namespace, rt.Object, rt.Relation, rt.SubjectSet.Namespace, rt.SubjectSet.Object, rt.SubjectSet.Relation)
}

type atomicReq struct {
	ins, del []*ketoapi.RelationTuple
}

func (c atomicCase) build() (initial []*ketoapi.RelationTuple, req atomicReq) {
	// bystanders and the relationships that will be deleted exist before
	for i := 0; i < 5; i++ {
		initial = append(initial, atomicTuple("by", i))
	}
	for i := 0; i < c.NDel; i++ {
		t := atomicTuple("del", i)
		initial = append(initial, t)
		if i%5 == 0 {
			initial = append(initial, t) // a second copy: delete removes all copies
		}
		req.del = append(req.del, t)
	}
	for i := 0; i < c.NIns; i++ {
		req.ins = append(req.ins, atomicTuple("ins", i))
	}
	bad := func(t *ketoapi.RelationTuple) *ketoapi.RelationTuple {
		b := *t
		if c.BadHow == "unknownns" {
			b.Namespace = "no-such-namespace"
		} else {
			b.SubjectID, b.SubjectSet = nil, nil
		}
		return &b
	}
	if c.BadIns > 0 && c.BadIns <= len(req.ins) {
		req.ins[c.BadIns-1] = bad(req.ins[c.BadIns-1])
	}
	if c.BadDel > 0 && c.BadDel <= len(req.del) {
		req.del[c.BadDel-1] = bad(req.del[c.BadDel-1])
	}
	return
}

// internal converts API tuples for the manager-level calls; an invalid
// element becomes a tuple without subject (the manager's own validation).
func (e *storeEnv) internal(ts []*ketoapi.RelationTuple) []*relationtuple.RelationTuple {
	ctx := e.ctx("A")
	var out []*relationtuple.RelationTuple
	for _, t := range ts {
		if (t.SubjectID == nil && t.SubjectSet == nil) || t.Namespace == "no-such-namespace" {
			out = append(out, &relationtuple.RelationTuple{Namespace: "n1", Relation: t.Relation})
			continue
		}
		it, err := e.reg.Mapper().FromTuple(ctx, t)
		if err != nil {
			e.t.Fatalf("map: %v", err)
		}
		out = append(out, it...)
	}
	return out
}

func (e *storeEnv) execAtomic(c atomicCase, req atomicReq) (ok bool, statusS string) {
	ctx := e.ctx("A")
	switch c.Via {
	case "manager-transact":
		err := e.reg.RelationTupleManager().TransactRelationTuples(ctx, e.preIns, e.preDel)
		return err == nil, fmt.Sprint(err)
	case "manager-write":
		err := e.reg.RelationTupleManager().WriteRelationTuples(ctx, e.preIns...)
		return err == nil, fmt.Sprint(err)
	case "manager-delete":
		err := e.reg.RelationTupleManager().DeleteRelationTuples(ctx, e.preDel...)
		return err == nil, fmt.Sprint(err)
	case "rest-patch":
		deltas := []*ketoapi.PatchDelta{}
		for _, t := range req.ins {
			deltas = append(deltas, &ketoapi.PatchDelta{Action: ketoapi.ActionInsert, RelationTuple: t})
		}
		for _, t := range req.del {
			deltas = append(deltas, &ketoapi.PatchDelta{Action: ketoapi.ActionDelete, RelationTuple: t})
		}
		b, _ := json.Marshal(deltas)
		code, _ := e.do("A", e.wr, "PATCH", "/admin/relation-tuples", b)
		return code == 204, fmt.Sprint(code)
	case "grpc-transact":
		r := &rts.TransactRelationTuplesRequest{}
		for _, t := range req.ins {
			r.RelationTupleDeltas = append(r.RelationTupleDeltas, &rts.RelationTupleDelta{Action: rts.RelationTupleDelta_ACTION_INSERT, RelationTuple: e.protoTuple(t)})
		}
		for _, t := range req.del {
			r.RelationTupleDeltas = append(r.RelationTupleDeltas, &rts.RelationTupleDelta{Action: rts.RelationTupleDelta_ACTION_DELETE, RelationTuple: e.protoTuple(t)})
		}
		_, err := e.rt.TransactRelationTuples(ctx, r)
		return err == nil, status.Code(err).String()
	case "rest-delete-query":
		// delete by query: everything in n1 with relation r (every relationship of these cases)
		code, _ := e.do("A", e.wr, "DELETE", "/admin/relation-tuples?namespace=n1&relation=r", nil)
		return code == 204, fmt.Sprint(code)
	case "grpc-delete-query":
		_, err := e.rt.DeleteRelationTuples(ctx, &rts.DeleteRelationTuplesRequest{RelationQuery: &rts.RelationQuery{Namespace: ptr("n1"), Relation: ptr("r")}})
		return err == nil, status.Code(err).String()
	}
	e.t.Fatalf("unknown via %q", c.Via)
	return
}

// setInitial puts exactly the initial relationships into the store.
func (e *storeEnv) setInitial(initial []*ketoapi.RelationTuple) {
	ctx := e.ctx("A")
	c := e.reg.Persister().Connection(ctx)
	for try := 0; ; try++ {
		if err := c.RawQuery("DELETE FROM keto_relation_tuples").Exec(); err == nil {
			break
		} else if try > 500 {
			e.t.Fatalf("reset: %v", err)
		}
		time.Sleep(2 * time.Millisecond)
	}
	its, err := e.reg.Mapper().FromTuple(ctx, initial...)
	if err != nil {
		e.t.Fatalf("map initial: %v", err)
	}
	if err := e.reg.RelationTupleManager().WriteRelationTuples(ctx, its...); err != nil {
		e.t.Fatalf("write initial: %v", err)
	}
}

func stmtSummary(log []sqlStmtRec) []map[string]any {
	var out []map[string]any
	for _, r := range log {
		ev := map[string]any{"kind": r.Kind, "table": r.Table, "conn": r.Conn, "err": r.Err}
		switch {
		case r.Kind == "INSERT" && r.Table == "keto_relation_tuples":
			ev["rows"] = strings.Count(r.SQL, "(?, ?, ?, ?, ?, ?, ?, ?, ?, ?)")
		case r.Kind == "INSERT" && r.Table == "keto_uuid_mappings":
			ev["rows"] = strings.Count(r.SQL, "(?,?)")
		case r.Kind == "DELETE" && r.Table == "keto_relation_tuples":
			ev["ors"] = strings.Count(r.SQL, "(namespace = ?")
		}
		out = append(out, ev)
	}
	return out
}

func init() {
	families["atomic"] = famAtomic
	families["atomicchild"] = famAtomicChild
}

func famAtomic(t *testing.T) {
	var in atomicIn
	readJSON(*fIn, &in)
	out := newNDWriter(*fOut)
	defer out.close()
	si, sn := shard()
	sqlCtl.keepSQL = true
	for ci, c := range in.Cases {
		if ci%sn != si {
			continue
		}
		// (the subtest name becomes part of the sqlite file: URI; testing's "#01" suffix for a repeated name would cut that URI short)
		t.Run(fmt.Sprintf("c%d-%s", ci, c.ID), func(t *testing.T) {
			e := newStoreEnv(t, storeNamespaces(), *fSeed)
			initial, req := c.build()
			e.setInitial(initial)
			e.preIns, e.preDel = e.internal(req.ins), e.internal(req.del)
			before, beforeH := e.logicalDump()
			// expected state after success
			want := map[string]int{}
			for _, l := range before {
				want[l]++
			}
			valid := c.BadIns == 0 && c.BadDel == 0
			if c.Via == "manager-write" {
				valid = c.BadIns == 0
			}
			if c.Via == "manager-delete" {
				valid = c.BadDel == 0
			}
			if c.Via != "manager-delete" {
				for _, x := range req.ins {
					if x.SubjectID != nil || x.SubjectSet != nil {
						want[tupleLine(x)]++
					}
				}
			}
			if c.Via != "manager-write" {
				for _, x := range req.del {
					if x.SubjectID != nil || x.SubjectSet != nil {
						delete(want, tupleLine(x))
					}
				}
			}
			if strings.HasSuffix(c.Via, "-delete-query") {
				want = map[string]int{} // the query matches every relationship of the case
			}
			var wantLines []string
			for l, n := range want {
				for i := 0; i < n; i++ {
					wantLines = append(wantLines, l)
				}
			}
			sort.Strings(wantLines)
			wh := sha256.Sum256([]byte(strings.Join(wantLines, "\n")))
			afterH := fmt.Sprintf("%d:%x", len(wantLines), wh[:8])

			// fault-free run with the statement log
			sqlCtl.begin(0, 0)
			ok, st := e.execAtomic(c, req)
			log := sqlCtl.end()
			_, gotH := e.logicalDump()
			res := map[string]any{"case": c, "ok": ok, "status": st, "before": beforeH, "after_expected": afterH, "after": gotH,
				"valid": valid, "stmts": stmtSummary(log), "nstmts": len(log)}
			// every statement position fails once
			maxK := len(log)
			if c.MaxK > 0 && maxK > c.MaxK {
				maxK = c.MaxK
			}
			var faults []map[string]any
			for k := 1; k <= maxK; k++ {
				e.setInitial(initial)
				e.preIns, e.preDel = e.internal(req.ins), e.internal(req.del)
				_, bh := e.logicalDump()
				sqlCtl.begin(k, 0)
				fok, fst := e.execAtomic(c, req)
				flog := sqlCtl.end()
				_, fh := e.logicalDump()
				faults = append(faults, map[string]any{"k": k, "ok": fok, "status": fst, "before": bh, "after": fh,
					"stmts": stmtSummary(flog), "hit": len(flog) >= k})
			}
			res["faults"] = faults
			// every statement position meets a lock conflict once ("database is locked"): the transaction layer may run the
			// request's transaction again; whatever it does, the request is applied completely or not at all, as it reports
			var busy []map[string]any
			for k := 1; k <= maxK; k++ {
				e.setInitial(initial)
				e.preIns, e.preDel = e.internal(req.ins), e.internal(req.del)
				_, bh := e.logicalDump()
				sqlCtl.beginBusy(k)
				fok, fst := e.execAtomic(c, req)
				flog := sqlCtl.end()
				_, fh := e.logicalDump()
				busy = append(busy, map[string]any{"k": k, "ok": fok, "status": fst, "before": bh, "after": fh, "hit": len(flog) >= k, "nstmts": len(flog)})
			}
			res["busy"] = busy
			out.write(res)
		})
	}
	if in.Readers > 0 && si == 0 {
		t.Run("readers", func(t *testing.T) { atomicReaders(t, out, in.Readers) })
	}
	if si == 0 {
		for _, c := range in.Cases {
			if c.Crash {
				atomicCrash(t, out, c)
			}
		}
	}
}

// atomicReaders: a writer toggles between two states with transactions that
// insert and delete several relationships at once; readers list continuously.
// Every successful listing must be one of the two states.
func atomicReaders(t *testing.T, out *ndWriter, seconds int) {
	e := newStoreEnv(t, storeNamespaces(), *fSeed)
	var a, b []*ketoapi.RelationTuple
	for i := 0; i < 7; i++ {
		a = append(a, atomicTuple("sa", i))
		b = append(b, atomicTuple("sb", i))
	}
	e.setInitial(a)
	ctx := e.ctx("A")
	ia, ib := e.internal(a), e.internal(b)
	linesOf := func(ts []*ketoapi.RelationTuple) string {
		var l []string
		for _, x := range ts {
			l = append(l, tupleLine(x))
		}
		sort.Strings(l)
		return strings.Join(l, "\n")
	}
	sa, sb := linesOf(a), linesOf(b)
	stop := make(chan struct{})
	var wg sync.WaitGroup
	var mu sync.Mutex
	reads, partial, errs, toggles := 0, 0, 0, 0
	var sample string
	for r := 0; r < 4; r++ {
		wg.Add(1)
		go func(r int) {
			defer wg.Done()
			for {
				select {
				case <-stop:
					return
				default:
				}
				var got []string
				var err error
				if r%2 == 0 {
					var ts []*relationtuple.RelationTuple
					ts, _, err = e.reg.RelationTupleManager().GetRelationTuples(ctx, &relationtuple.RelationQuery{})
					if err == nil {
						var ats []*ketoapi.RelationTuple
						ats, err = e.reg.ReadOnlyMapper().ToTuple(ctx, ts...)
						for _, x := range ats {
							got = append(got, tupleLine(x))
						}
					}
				} else {
					code, body := e.do("A", e.rr, "GET", "/relation-tuples?"+url.Values{"page_size": {"100"}}.Encode(), nil)
					if code != 200 {
						err = fmt.Errorf("status %d", code)
					} else {
						var resp ketoapi.GetResponse
						json.Unmarshal(body, &resp)
						for _, x := range resp.RelationTuples {
							got = append(got, tupleLine(x))
						}
					}
				}
				mu.Lock()
				if err != nil {
					errs++
				} else {
					reads++
					sort.Strings(got)
					if s := strings.Join(got, "\n"); s != sa && s != sb {
						partial++
						if sample == "" {
							sample = s
						}
					}
				}
				mu.Unlock()
			}
		}(r)
	}
	deadline := time.Now().Add(time.Duration(seconds) * time.Second)
	cur := "a"
	for time.Now().Before(deadline) {
		var err error
		if cur == "a" {
			err = e.reg.RelationTupleManager().TransactRelationTuples(ctx, ib, ia)
		} else {
			err = e.reg.RelationTupleManager().TransactRelationTuples(ctx, ia, ib)
		}
		if err == nil {
			toggles++
			if cur == "a" {
				cur = "b"
			} else {
				cur = "a"
			}
		}
	}
	close(stop)
	wg.Wait()
	out.write(map[string]any{"readers": true, "reads": reads, "partial": partial, "errors": errs, "toggles": toggles, "sample": sample})
}

// ---------------------------------------------------------------- crash points (child processes on a file database)

type crashChild struct {
	DB    string     `json:"db"`
	Case  atomicCase `json:"case"`
	Phase string     `json:"phase"` // setup | run | dump
	K     int        `json:"k"`
}

func fileRegistry(t testing.TB, path string) *storeEnv {
	dsn := "sqlite://file:" + path + "?_fk=true"
	reg := driver.NewTestRegistry(t, &dbx.DsnT{Name: "sqlite", Conn: dsn, MigrateUp: true},
		driver.WithLogLevel("panic"), driver.WithNamespaces(storeNamespaces()), driver.WithContextualizer(ctxNetworks{}))
	e := &storeEnv{t: t, reg: reg, nids: map[string]uuid.UUID{}, sym: newSymtab(1)}
	ctx := context.Background()
	e.rr, e.wr, e.sr = reg.ReadRouter(ctx), reg.WriteRouter(ctx), reg.OPLSyntaxRouter(ctx)
	e.rt = relationtuple.NewHandler(reg)
	e.nids["A"] = reg.NetworkID(ctx)
	return e
}

func famAtomicChild(t *testing.T) {
	var cc crashChild
	if err := json.Unmarshal([]byte(*fChild), &cc); err != nil {
		t.Fatal(err)
	}
	e := fileRegistry(t, cc.DB)
	initial, req := cc.Case.build()
	switch cc.Phase {
	case "setup":
		e.setInitial(initial)
		_, h := e.logicalDump()
		fmt.Printf("VERIFDUMP %s\n", h)
	case "run":
		e.preIns, e.preDel = e.internal(req.ins), e.internal(req.del)
		sqlCtl.begin(0, cc.K)
		ok, st := e.execAtomic(cc.Case, req)
		log := sqlCtl.end()
		_ = st
		fmt.Printf("VERIFRUN %v %d\n", ok, len(log))
	case "dump":
		_, h := e.logicalDump()
		fmt.Printf("VERIFDUMP %s\n", h)
	}
}

func atomicCrash(t *testing.T, out *ndWriter, c atomicCase) {
	dir := t.TempDir()
	db := dir + "/crash.sqlite"
	child := func(phase string, k int) (string, int) {
		b, _ := json.Marshal(crashChild{DB: db, Case: c, Phase: phase, K: k})
		cmd := exec.Command(os.Args[0], "-test.run", "^TestVerif$", "-verif.family", "atomicchild", "-verif.child", string(b))
		o, err := cmd.CombinedOutput()
		code := 0
		if err != nil {
			if ee, ok := err.(*exec.ExitError); ok {
				code = ee.ExitCode()
			} else {
				code = -1
			}
		}
		return string(o), code
	}
	grab := func(o, key string) string {
		for _, l := range strings.Split(o, "\n") {
			if strings.HasPrefix(l, key) {
				return strings.TrimSpace(strings.TrimPrefix(l, key))
			}
		}
		return ""
	}
	o, code := child("setup", 0)
	before := grab(o, "VERIFDUMP")
	if code != 0 || before == "" {
		out.write(map[string]any{"crash": c.ID, "error": "setup failed", "out": o[len(o)-min(len(o), 1500):]})
		return
	}
	// fault-free run on a copy determines the expected after-state and the statement count
	o, code = child("run", 0)
	n := 0
	var okS string
	fmt.Sscanf(grab(o, "VERIFRUN"), "%s %d", &okS, &n)
	o2, _ := child("dump", 0)
	after := grab(o2, "VERIFDUMP")
	var points []map[string]any
	maxK := n
	if c.MaxK > 0 && maxK > c.MaxK {
		maxK = c.MaxK
	}
	for k := 1; k <= maxK; k++ {
		os.Remove(db)
		os.Remove(db + "-journal")
		os.Remove(db + "-wal")
		child("setup", 0)
		_, rc := child("run", k)
		o3, _ := child("dump", 0)
		points = append(points, map[string]any{"k": k, "exit": rc, "after": grab(o3, "VERIFDUMP")})
	}
	out.write(map[string]any{"crash": c.ID, "case": c, "before": before, "after_ok": after, "nstmts": n, "points": points})
}

func min(a, b int) int {
	if a < b {
		return a
	}
	return b
}
