package zzverif

import (
	"context"
	"database/sql"
	"database/sql/driver"
	"errors"
	"fmt"
	"os"
	"regexp"
	"strings"
	"sync"
	"sync/atomic"
	"time"

	sqlite3 "github.com/mattn/go-sqlite3"
)

// A database/sql driver that wraps sqlite3 and is registered under the name pop
// would give its own instrumented sqlite driver. pop only registers that name
// if it is still free, so every connection Keto opens goes through this
// wrapper: statements can be logged, the k-th one can be made to fail, or the
// process can be killed right before it (crash points).

type sqlStmtRec struct {
	Seq   int    `json:"seq"`
	Conn  int    `json:"conn"`
	Kind  string `json:"kind"`  // BEGIN COMMIT ROLLBACK INSERT DELETE SELECT UPDATE OTHER
	Table string `json:"table"` // main table touched
	Args  int    `json:"args"`  // number of bound values
	Err   bool   `json:"err"`
	SQL   string `json:"sql,omitempty"`
}

type sqlController struct {
	mu      sync.Mutex
	enabled bool
	seq     int
	log     []sqlStmtRec
	failAt  int   // fail the k-th statement (1-based) with errSQLInjected
	failAll bool  // persistent: every statement from the failAt-th on fails
	failErr error // the error of the injected failure (default errSQLInjected)
	crashAt int   // os.Exit(77) right before the k-th statement
	keepSQL bool
	// table fault: the first INSERT/DELETE on failTable fails
	failTable  string
	tableFired bool
}

var sqlCtl = &sqlController{}
var errSQLInjected = errors.New("verif: injected SQL failure")
var connIDs int64

func (c *sqlController) begin(failAt, crashAt int) {
	c.mu.Lock()
	c.enabled, c.seq, c.log, c.failAt, c.crashAt, c.failAll, c.failErr = true, 0, nil, failAt, crashAt, false, nil
	c.mu.Unlock()
}

// beginBusy: the k-th statement fails once the way SQLite reports a lock conflict (transaction layers retry on it)
func (c *sqlController) beginBusy(failAt int) {
	c.mu.Lock()
	c.enabled, c.seq, c.log, c.failAt, c.crashAt, c.failAll, c.failErr = true, 0, nil, failAt, 0, false, sqlite3.Error{Code: sqlite3.ErrBusy}
	c.mu.Unlock()
}

// beginLocked: the k-th statement fails once with SQLite's "database table is locked" (SQLITE_LOCKED), which the error
// translation of the persistence layer reports as a serialisation conflict (sqlcon.ErrConcurrentUpdate)
func (c *sqlController) beginLocked(failAt int) {
	c.mu.Lock()
	c.enabled, c.seq, c.log, c.failAt, c.crashAt, c.failAll, c.failErr = true, 0, nil, failAt, 0, false, sqlite3.Error{Code: sqlite3.ErrLocked}
	c.mu.Unlock()
}

// beginPersistent: every statement from the k-th on fails (the database went away)
func (c *sqlController) beginPersistent(failFrom int) {
	c.mu.Lock()
	c.enabled, c.seq, c.log, c.failAt, c.crashAt, c.failAll, c.failErr = true, 0, nil, failFrom, 0, true, nil
	c.mu.Unlock()
}

func (c *sqlController) beginTableFault(table string) {
	c.mu.Lock()
	c.enabled, c.seq, c.log, c.failAt, c.crashAt, c.failTable, c.tableFired = true, 0, nil, 0, 0, table, false
	c.mu.Unlock()
}

func (c *sqlController) endTableFault() bool {
	c.mu.Lock()
	defer c.mu.Unlock()
	c.enabled, c.failTable = false, ""
	c.log = nil
	return c.tableFired
}

func (c *sqlController) end() []sqlStmtRec {
	c.mu.Lock()
	defer c.mu.Unlock()
	c.enabled = false
	l := c.log
	c.log = nil
	return l
}

var reTable = regexp.MustCompile(`(?i)(?:INTO|FROM|UPDATE)\s+"?([a-z_]+)"?`)

// sqlWrites: the statements of q (outside "--" comments) that start with a data- or schema-changing keyword; a driver that
// executes stacked statements would run them
func sqlWrites(q string) []string {
	var clean strings.Builder
	for _, line := range strings.Split(q, "\n") {
		if i := strings.Index(line, "--"); i >= 0 {
			line = line[:i]
		}
		clean.WriteString(line + "\n")
	}
	var out []string
	for _, st := range strings.Split(clean.String(), ";") {
		up := strings.ToUpper(strings.TrimSpace(st))
		for _, kw := range []string{"INSERT", "UPDATE", "DELETE", "DROP", "ALTER", "CREATE", "REPLACE", "TRUNCATE", "ATTACH", "PRAGMA"} {
			if strings.HasPrefix(up, kw) {
				out = append(out, strings.TrimSpace(st))
			}
		}
	}
	return out
}

func classify(q string) (kind, table string) {
	s := strings.TrimSpace(q)
	up := strings.ToUpper(s)
	switch {
	case strings.HasPrefix(up, "INSERT"):
		kind = "INSERT"
	case strings.HasPrefix(up, "DELETE"):
		kind = "DELETE"
	case strings.HasPrefix(up, "SELECT"):
		kind = "SELECT"
	case strings.HasPrefix(up, "UPDATE"):
		kind = "UPDATE"
	default:
		kind = "OTHER"
	}
	if m := reTable.FindStringSubmatch(s); m != nil {
		table = m[1]
	}
	return
}

// gate is called before a statement runs; a non-nil error means "do not run it".
func (c *sqlController) gate(conn int, kind, table, q string, nargs int) (int, error) {
	c.mu.Lock()
	defer c.mu.Unlock()
	if !c.enabled {
		return 0, nil
	}
	c.seq++
	k := c.seq
	if c.crashAt != 0 && k == c.crashAt {
		os.Exit(77)
	}
	var err error
	if c.failAt != 0 && (k == c.failAt || (c.failAll && k > c.failAt)) && kind != "ROLLBACK" {
		err = errSQLInjected
		if c.failErr != nil {
			err = c.failErr
		}
	}
	if c.failTable != "" && !c.tableFired && table == c.failTable && (kind == "INSERT" || kind == "DELETE") {
		c.tableFired = true
		err = errSQLInjected
	}
	r := sqlStmtRec{Seq: k, Conn: conn, Kind: kind, Table: table, Args: nargs, Err: err != nil}
	if c.keepSQL {
		r.SQL = q
	}
	c.log = append(c.log, r)
	return k, err
}

// slow database: while slowFor > 0 every query waits until the context IT WAS GIVEN is done (then fails with that
// context's error, like a driver does), or for slowFor. A statement issued under the request's context costs nothing once the
// request is cancelled; one issued under some other context keeps its goroutine for slowFor.
var sqlSlowFor atomic.Int64

func sqlSlow(ctx context.Context) error {
	d := time.Duration(sqlSlowFor.Load())
	if d <= 0 {
		return nil
	}
	// a statement that carries the context of a request that is still live is never slowed down (a straggler of an earlier,
	// cancelled run may have switched the slowness on)
	if rs, _ := ctx.Value(rsKeyT{}).(*runState); rs != nil {
		rs.mu.Lock()
		live := !rs.cancelled
		rs.mu.Unlock()
		if live && ctx.Err() == nil {
			return nil
		}
	}
	select {
	case <-ctx.Done():
		return ctx.Err()
	case <-time.After(d):
		return nil
	}
}

type wDriver struct{ base driver.Driver }

func (d wDriver) Open(name string) (driver.Conn, error) {
	c, err := d.base.Open(name)
	if err != nil {
		return nil, err
	}
	return &wConn{Conn: c, id: int(atomic.AddInt64(&connIDs, 1))}, nil
}

type wConn struct {
	driver.Conn
	id int
}

func (c *wConn) ExecContext(ctx context.Context, q string, args []driver.NamedValue) (driver.Result, error) {
	kind, table := classify(q)
	if _, err := sqlCtl.gate(c.id, kind, table, q, len(args)); err != nil {
		return nil, err
	}
	return c.Conn.(driver.ExecerContext).ExecContext(ctx, q, args)
}

func (c *wConn) QueryContext(ctx context.Context, q string, args []driver.NamedValue) (driver.Rows, error) {
	if err := sqlSlow(ctx); err != nil {
		return nil, err
	}
	kind, table := classify(q)
	if _, err := sqlCtl.gate(c.id, kind, table, q, len(args)); err != nil {
		return nil, err
	}
	return c.Conn.(driver.QueryerContext).QueryContext(ctx, q, args)
}

func (c *wConn) BeginTx(ctx context.Context, opts driver.TxOptions) (driver.Tx, error) {
	if _, err := sqlCtl.gate(c.id, "BEGIN", "", "BEGIN", 0); err != nil {
		return nil, err
	}
	tx, err := c.Conn.(driver.ConnBeginTx).BeginTx(ctx, opts)
	if err != nil {
		return nil, err
	}
	return &wTx{Tx: tx, c: c}, nil
}

func (c *wConn) Begin() (driver.Tx, error) {
	return c.BeginTx(context.Background(), driver.TxOptions{})
}

func (c *wConn) PrepareContext(ctx context.Context, q string) (driver.Stmt, error) {
	st, err := c.Conn.(driver.ConnPrepareContext).PrepareContext(ctx, q)
	if err != nil {
		return nil, err
	}
	return &wStmt{Stmt: st, c: c, q: q}, nil
}

func (c *wConn) Prepare(q string) (driver.Stmt, error) {
	return c.PrepareContext(context.Background(), q)
}

func (c *wConn) Ping(ctx context.Context) error {
	if p, ok := c.Conn.(driver.Pinger); ok {
		return p.Ping(ctx)
	}
	return nil
}

func (c *wConn) ResetSession(ctx context.Context) error {
	if r, ok := c.Conn.(driver.SessionResetter); ok {
		return r.ResetSession(ctx)
	}
	return nil
}

func (c *wConn) IsValid() bool {
	if v, ok := c.Conn.(driver.Validator); ok {
		return v.IsValid()
	}
	return true
}

type wTx struct {
	driver.Tx
	c *wConn
}

func (t *wTx) Commit() error {
	if _, err := sqlCtl.gate(t.c.id, "COMMIT", "", "COMMIT", 0); err != nil {
		_ = t.Tx.Rollback() // the failed commit must not leave the transaction open
		return err
	}
	return t.Tx.Commit()
}

func (t *wTx) Rollback() error {
	sqlCtl.gate(t.c.id, "ROLLBACK", "", "ROLLBACK", 0) // a rollback is never made to fail
	return t.Tx.Rollback()
}

type wStmt struct {
	driver.Stmt
	c *wConn
	q string
}

func (s *wStmt) ExecContext(ctx context.Context, args []driver.NamedValue) (driver.Result, error) {
	kind, table := classify(s.q)
	if _, err := sqlCtl.gate(s.c.id, kind, table, s.q, len(args)); err != nil {
		return nil, err
	}
	return s.Stmt.(driver.StmtExecContext).ExecContext(ctx, args)
}

func (s *wStmt) QueryContext(ctx context.Context, args []driver.NamedValue) (driver.Rows, error) {
	kind, table := classify(s.q)
	if _, err := sqlCtl.gate(s.c.id, kind, table, s.q, len(args)); err != nil {
		return nil, err
	}
	return s.Stmt.(driver.StmtQueryContext).QueryContext(ctx, args)
}

func (s *wStmt) Exec(args []driver.Value) (driver.Result, error) {
	return s.ExecContext(context.Background(), toNamed(args))
}

func (s *wStmt) Query(args []driver.Value) (driver.Rows, error) {
	return s.QueryContext(context.Background(), toNamed(args))
}

func toNamed(args []driver.Value) []driver.NamedValue {
	out := make([]driver.NamedValue, len(args))
	for i, a := range args {
		out[i] = driver.NamedValue{Ordinal: i + 1, Value: a}
	}
	return out
}

func init() {
	db, err := sql.Open("sqlite3", ":memory:?cache=verif_wrap_temporary")
	if err != nil {
		panic(fmt.Sprintf("verif: cannot open sqlite3: %v", err))
	}
	base := db.Driver()
	db.Close()
	sql.Register("instrumented-sql-driver-sqlite3", wDriver{base})
}
