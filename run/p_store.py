"""C04, C06, C17 (and the store part of C16): Store.tla histories replayed over REST and gRPC."""
import json, os, sys
import lib
from lib import *

TIERS = {"quick": dict(runs=160, steps=30), "thorough": dict(runs=8000, steps=40)}


def store_small(ck):
    cfg = write_cfg(['Mode = "small"', "NRuns = 0", "NSteps = 0", "MaxCopies = 2", "Faults = FALSE"],
                    invariants=["TypeOK", "ListIsMatch"],
                    properties=["ReadOnlyUnchanged", "Isolation", "ErrorsChangeNothing", "CreateAddsOne",
                                "DeleteRemovesMatching", "TransactExact"])
    r = tlc("Store", "small.cfg", files={"small.cfg": cfg}, want_lines=False)
    ck.add_tlc(r)
    if r.violation:
        ck.violation("Store.tla (exhaustive): " + r.violation, {"tlc": r.raw_tail[-3000:]})
    ck.extra["store_exhaustive_states"] = r.distinct


def histories(ck, tier, runs=None, steps=None, faults=False):
    p = TIERS[tier]
    cfg = write_cfg(['Mode = "gen"', "NRuns = %d" % (runs or p["runs"]), "NSteps = %d" % (steps or p["steps"]), "MaxCopies = 2",
                     "Faults = %s" % ("TRUE" if faults else "FALSE")])
    r = tlc("Store", "gen.cfg", files={"gen.cfg": cfg}, extra=["-seed", str(seed())], workers=8)
    ck.add_tlc(r)
    hs = sorted([l for l in r.lines if "run" in l], key=lambda h: h["run"])
    if not hs:
        raise Inconclusive("Store.tla generated no histories")
    global UNIVERSE
    UNIVERSE = [l for l in r.lines if "universe" in l][0]["universe"]
    return hs


def canon_bag(lst):
    """[[tuple, n], ...] -> sorted list of (json, n)"""
    return sorted((json.dumps(t, sort_keys=True), n) for t, n in lst)


UNIVERSE = []


def replay(binary, hs, page_size=2, mirror=False, probes=False):
    inp = {"histories": [{"run": h["run"], "steps": [{"op": s["op"], "nid": s["nid"], "args": s["args"], "fault": "storage-fault" in s["reply"]}
                                                     for s in h["steps"]]} for h in hs],
           "page_size": page_size, "mirror": mirror, "probes": probes, "universe": UNIVERSE}
    recs = run_harness(binary, "store", inp)
    return {r["h"]: r for r in recs}


def compare(ck, hs, obs, want):
    """want: set of discrepancy classes this property reports: store, isolation, readonly"""
    nsteps = 0
    for hi, h in enumerate(hs):
        r = obs.get(hi)
        if r is None:
            raise Inconclusive("history %d was not replayed" % hi)
        if "isolation" in want:
            for b in r.get("nested") or []:
                ck.violation(b, {"history": h["run"]})
        prev = {"A": [], "B": []}
        for si, (st, ob) in enumerate(zip(h["steps"], r["steps"])):
            nsteps += 1
            ck.evaluations += 1
            ctx = {"history": h["run"], "step": si, "op": st["op"], "network": st["nid"], "args": st["args"],
                   "transport": ob["transport"], "status": ob["status"], "symbols": r.get("symbols"),
                   "prefix": [{"op": s["op"], "nid": s["nid"], "args": s["args"]} for s in h["steps"][:si]]}
            other = "B" if st["nid"] == "A" else "A"
            exp_after = {n: canon_bag(st["after"][n]) for n in ("A", "B")}
            got_after = {n: canon_bag(ob["after"][n] or []) for n in ("A", "B")}
            if "storage-fault" in st["reply"] and not ob.get("fault_hit"):
                raise Inconclusive("an injected storage fault did not hit any statement (history %d step %d)" % (h["run"], si))
            if "store" in want:
                if ob["ok"] != st["ok"]:
                    ck.violation("%s over %s: accepted=%s, the store model says %s" % (st["op"], ob["transport"], ob["ok"], st["ok"]),
                                 dict(ctx, expected_ok=st["ok"], observed_ok=ob["ok"]))
                elif st["op"] in ("list", "check") and st["ok"]:
                    exp = canon_bag(st["reply"]) if st["op"] == "list" else sorted(st["reply"])
                    got = canon_bag(ob["reply"] or []) if st["op"] == "list" else sorted(ob["reply"] or [])
                    if exp != got:
                        ck.violation("%s over %s returned something else than the store model" % (st["op"], ob["transport"]),
                                     dict(ctx, expected=exp, observed=got))
                if got_after[st["nid"]] != exp_after[st["nid"]]:
                    ck.violation("stored relationships after %s differ from the multiset model" % st["op"],
                                 dict(ctx, expected=exp_after[st["nid"]], observed=got_after[st["nid"]]))
                if ob["raw"][st["nid"]] != sum(n for _, n in exp_after[st["nid"]]):
                    ck.violation("row count after %s differs from the multiset model" % st["op"],
                                 dict(ctx, expected=sum(n for _, n in exp_after[st["nid"]]), observed=ob["raw"][st["nid"]]))
                if st["ok"] and st["op"] in ("create", "transact", "deleteq") and exp_after[st["nid"]] != prev[st["nid"]]:
                    ck.nontrivial.add((h["run"], si))
            if "isolation" in want:
                if got_after[other] != exp_after[other] or ob["raw"][other] != sum(n for _, n in exp_after[other]):
                    ck.violation("an operation in network %s changed what network %s sees" % (st["nid"], other),
                                 dict(ctx, expected=exp_after[other], observed=got_after[other], raw=ob["raw"]))
                if st["ok"] and st["op"] in ("create", "transact", "deleteq") and exp_after[st["nid"]] != prev[st["nid"]] and exp_after[other]:
                    ck.nontrivial.add((h["run"], si))
            if "isolation" in want and ob.get("m_changed"):
                ck.violation("%s in network %s changed rows of a third network that mirrors its identifiers" % (st["op"], st["nid"]), ctx)
            if "readonly" in want:
                ck.evaluations += ob.get("probes", 0)
                for pb in ob.get("probe_bad") or []:
                    ck.violation("read request '%s' changed the database" % pb, ctx)
                if ob.get("ro_changed"):
                    ck.violation("read operation %s over %s changed the database" % (st["op"], ob["transport"]), ctx)
                if st["op"] in ("list", "check"):
                    ck.nontrivial.add((h["run"], si))
            if "store" in want and ("list-all" in ob.get("note", "") or (st["ok"] and ob.get("note", "").strip())):
                ck.violation("listing failed: " + ob["note"], ctx)
            prev = exp_after
    return nsteps


def c04(tier):
    ck = Check("C04", tier)
    binary = build_harness()
    store_small(ck)
    hs = histories(ck, tier, faults=True)
    obs = replay(binary, hs)
    compare(ck, hs, obs, {"store"})
    import p_overlap
    p_overlap.overlap(ck, binary, tier)
    ck.extra["writes_with_injected_storage_fault"] = sum(1 for h in hs for s in h["steps"] if "storage-fault" in s["reply"])
    ck.sample({"history": hs[0]["run"], "steps": [{"op": s["op"], "nid": s["nid"], "args": s["args"], "ok": s["ok"]} for s in hs[0]["steps"][:6]]})
    ck.extra["histories"] = len(hs)
    ck.rule = ("TLC draws API histories from Store.tla with the reply and both networks' multisets after every step; the harness "
               "executes them alternately over REST and gRPC with adversarial concrete strings; non-trivial: a successful write that changed the multiset. "
               "Keto.tla (checks that overlap writes, at the grain of the engine's storage reads) is model checked and every write schedule it "
               "emits is replayed on the real engine; the recorded reads, writes and answers are validated by TraceKeto.tla")
    ck.assumptions = ["sqlite in-memory backend only", "check replies use configuration-free namespaces (direct + subject-set expansion)"]
    ck.finish()


def c06(tier):
    ck = Check("C06", tier)
    binary = build_harness()
    store_small(ck)
    hs = histories(ck, tier)
    obs = replay(binary, hs, mirror=True)
    # both halves: B (and the mirror network) unchanged by A's history, and A's observations equal the model of A alone
    compare(ck, hs, obs, {"isolation", "store"})
    ck.sample({"history": hs[0]["run"], "steps": [{"op": s["op"], "nid": s["nid"], "args": s["args"], "ok": s["ok"]} for s in hs[0]["steps"][:6]]})
    ck.extra["histories"] = len(hs)
    ck.rule = ("Store.tla histories over two networks on one database connection (network id from the request context) plus a third network "
               "seeded by raw SQL with rows that carry network A's UUIDs; after every step all networks are listed and counted; after every history one step for network B is done inside a transaction begun for network A; "
               "non-trivial: a state-changing write while the other network holds data")
    ck.assumptions = ["sqlite in-memory backend only", "networks are selected through a context-driven Contextualizer on one registry"]
    ck.finish()


def c17(tier):
    ck = Check("C17", tier)
    binary = build_harness()
    store_small(ck)
    p = TIERS[tier]
    hs = histories(ck, tier, runs=max(40, p["runs"] // 4))
    obs = replay(binary, hs, probes=True)
    compare(ck, hs, obs, {"readonly"})
    ck.sample({"read_probes_per_step": obs[0]["steps"][0].get("probes"), "history": hs[0]["run"],
               "steps": [{"op": s["op"], "nid": s["nid"], "args": s["args"]} for s in hs[0]["steps"][:4]]})
    ck.extra["histories"] = len(hs)
    ck.rule = ("after every step of a Store.tla history, 45 read / syntax requests (batch checks of 5, 6 and 10 valid relationships with never-seen names, and names that carry quotes, comment markers and line breaks followed by SQL among them) (never-seen names, every check transport, expand, "
               "namespaces, syntax check, write methods sent to the read and syntax routers) are sent; a byte-level dump of both tables "
               "is compared around each; non-trivial: every list/check step of the histories")
    ck.assumptions = ["sqlite in-memory backend only"]
    ck.finish()
