// Package zzverif is the conformance harness of /verif. It is compiled INTO the
// keto module from /repo's working tree with `go test -c -overlay` (see
// /verif/run/lib.py) so that it can reach internal packages.
package zzverif

import (
	"bufio"
	"context"
	"encoding/json"
	"errors"
	"fmt"
	"hash/fnv"
	"os"
	"runtime"
	"sort"
	"strings"
	"sync"
	"testing"
	"time"

	"github.com/ory/keto/internal/driver"
	"github.com/ory/keto/internal/driver/config"
	"github.com/ory/keto/internal/namespace"
	"github.com/ory/keto/internal/namespace/ast"
	"github.com/ory/keto/internal/persistence"
	"github.com/ory/keto/internal/relationtuple"
	"github.com/ory/keto/internal/x"
	"github.com/ory/keto/ketoapi"
	"google.golang.org/grpc/codes"
	"google.golang.org/grpc/status"
	"google.golang.org/protobuf/proto"
)

// ---------------------------------------------------------------- tuples

// jtuple is the JSON form of a tuple used in all case files:
// [ns, obj, rel, ["id", s]] or [ns, obj, rel, ["set", ns, obj, rel]].
type jtuple []json.RawMessage

func jstr(r json.RawMessage) string {
	var s string
	if err := json.Unmarshal(r, &s); err != nil {
		panic(fmt.Sprintf("not a string: %s", r))
	}
	return s
}

func jsub(r json.RawMessage) []string {
	var s []string
	if err := json.Unmarshal(r, &s); err != nil {
		panic(fmt.Sprintf("not a subject: %s", r))
	}
	return s
}

func (t jtuple) api() *ketoapi.RelationTuple {
	rt := &ketoapi.RelationTuple{Namespace: jstr(t[0]), Object: jstr(t[1]), Relation: jstr(t[2])}
	sub := jsub(t[3])
	switch sub[0] {
	case "id":
		rt.SubjectID = &sub[1]
	case "set":
		rt.SubjectSet = &ketoapi.SubjectSet{Namespace: sub[1], Object: sub[2], Relation: sub[3]}
	}
	return rt
}

func tupleKey(rt *ketoapi.RelationTuple) string {
	b, _ := json.Marshal(rt)
	return string(b)
}

// ---------------------------------------------------------------- namespaces from a spec configuration

type jrewrite struct {
	K    string      `json:"k"`
	Rel  string      `json:"rel"`
	Crel string      `json:"crel"`
	Ch   []*jrewrite `json:"ch"`
	C    *jrewrite   `json:"c"`
}

type jrel struct {
	SS bool       `json:"ss"`
	Ty [][]string `json:"ty"`
	Rw *jrewrite  `json:"rw"`
}

// jcfg: namespace -> relation -> jrel; an empty TLA+ function may print as [] or {}.
type jcfg map[string]map[string]jrel

func (c *jcfg) UnmarshalJSON(b []byte) error {
	var raw map[string]json.RawMessage
	if err := json.Unmarshal(b, &raw); err != nil {
		return err
	}
	*c = jcfg{}
	for ns, r := range raw {
		rels := map[string]jrel{}
		if s := strings.TrimSpace(string(r)); s != "[]" && s != "{}" && s != "null" {
			if err := json.Unmarshal(r, &rels); err != nil {
				return fmt.Errorf("namespace %s: %w", ns, err)
			}
		}
		(*c)[ns] = rels
	}
	return nil
}

func (r *jrewrite) child() ast.Child {
	switch r.K {
	case "css":
		return &ast.ComputedSubjectSet{Relation: r.Rel}
	case "ttu":
		return &ast.TupleToSubjectSet{Relation: r.Rel, ComputedSubjectSetRelation: r.Crel}
	case "not":
		return &ast.InvertResult{Child: r.C.child()}
	case "or", "and":
		return r.rewrite()
	}
	panic("unknown rewrite kind " + r.K)
}

func (r *jrewrite) rewrite() *ast.SubjectSetRewrite {
	rw := &ast.SubjectSetRewrite{Operation: ast.OperatorOr}
	if r.K == "and" {
		rw.Operation = ast.OperatorAnd
	}
	for _, c := range r.Ch {
		rw.Children = append(rw.Children, c.child())
	}
	return rw
}

func (c jcfg) namespaces() []*namespace.Namespace {
	var names []string
	for n := range c {
		names = append(names, n)
	}
	sort.Strings(names)
	var out []*namespace.Namespace
	for _, n := range names {
		ns := &namespace.Namespace{Name: n}
		var rels []string
		for r := range c[n] {
			rels = append(rels, r)
		}
		sort.Strings(rels)
		for _, r := range rels {
			jr := c[n][r]
			rel := ast.Relation{Name: r}
			for _, ty := range jr.Ty {
				rel.Types = append(rel.Types, ast.RelationType{Namespace: ty[0], Relation: ty[1]})
			}
			if jr.Rw != nil && jr.Rw.K != "none" {
				if jr.Rw.K == "or" || jr.Rw.K == "and" {
					rel.SubjectSetRewrite = jr.Rw.rewrite()
				} else {
					rel.SubjectSetRewrite = jr.Rw.child().AsRewrite()
				}
			}
			ns.Relations = append(ns.Relations, rel)
		}
		out = append(out, ns)
	}
	return out
}

// opl renders the configuration as OPL source text. The text is parsed by the
// real parser and must give back exactly the AST the specification evaluates.
func (c jcfg) opl() string {
	var names []string
	for n := range c {
		names = append(names, n)
	}
	sort.Strings(names)
	var b strings.Builder
	b.WriteString("import { Namespace, SubjectSet, Context } from \"@ory/keto-namespace-types\"\n")
	for _, n := range names {
		fmt.Fprintf(&b, "class %s implements Namespace {\n", n)
		var rels []string
		for r := range c[n] {
			rels = append(rels, r)
		}
		sort.Strings(rels)
		var related, permits []string
		for _, r := range rels {
			jr := c[n][r]
			if jr.Rw != nil && jr.Rw.K != "none" {
				permits = append(permits, fmt.Sprintf("    %s: (ctx: Context): boolean => %s", r, c.expr(n, jr.Rw, true)))
				continue
			}
			var tys []string
			for _, ty := range jr.Ty {
				if ty[1] == "" {
					tys = append(tys, ty[0])
				} else {
					tys = append(tys, fmt.Sprintf("SubjectSet<%s, %q>", ty[0], ty[1]))
				}
			}
			related = append(related, fmt.Sprintf("    %s: (%s)[]", r, strings.Join(tys, " | ")))
		}
		if len(related) > 0 {
			fmt.Fprintf(&b, "  related: {\n%s\n  }\n", strings.Join(related, "\n"))
		}
		if len(permits) > 0 {
			fmt.Fprintf(&b, "  permits = {\n%s\n  }\n", strings.Join(permits, ",\n"))
		}
		b.WriteString("}\n")
	}
	return b.String()
}

func (c jcfg) isPermit(ns, rel string) bool {
	jr, ok := c[ns][rel]
	return ok && jr.Rw != nil && jr.Rw.K != "none"
}

func (c jcfg) expr(ns string, r *jrewrite, top bool) string {
	switch r.K {
	case "css":
		if c.isPermit(ns, r.Rel) {
			return fmt.Sprintf("this.permits.%s(ctx)", r.Rel)
		}
		return fmt.Sprintf("this.related.%s.includes(ctx.subject)", r.Rel)
	case "ttu":
		// the computed relation is looked up on the types of the traversed relation
		permit := false
		for _, ty := range c[ns][r.Rel].Ty {
			if c.isPermit(ty[0], r.Crel) {
				permit = true
			}
		}
		if permit {
			return fmt.Sprintf("this.related.%s.traverse((p) => p.permits.%s(ctx))", r.Rel, r.Crel)
		}
		return fmt.Sprintf("this.related.%s.traverse((p) => p.related.%s.includes(ctx.subject))", r.Rel, r.Crel)
	case "not":
		if r.C.K == "or" || r.C.K == "and" {
			return "!(" + c.expr(ns, r.C, true) + ")"
		}
		return "!" + c.expr(ns, r.C, false)
	case "or", "and":
		op := " || "
		if r.K == "and" {
			op = " && "
		}
		// the parser builds "x op y" as Op[Or[x], y]: a leading single-child Or is
		// that artefact and is printed without parentheses
		var parts []string
		for i, ch := range r.Ch {
			if (ch.K == "or" || ch.K == "and") && !(i == 0 && ch.K == "or" && len(ch.Ch) == 1 && ch.Ch[0].K != "or" && ch.Ch[0].K != "and") {
				parts = append(parts, "("+c.expr(ns, ch, true)+")")
			} else if ch.K == "or" {
				parts = append(parts, c.expr(ns, ch.Ch[0], false))
			} else {
				parts = append(parts, c.expr(ns, ch, false))
			}
		}
		return strings.Join(parts, op)
	}
	panic("expr: " + r.K)
}

// relationsJSON is the canonical form used to compare two ASTs.
func relationsJSON(nss []*namespace.Namespace) string {
	m := map[string]any{}
	for _, n := range nss {
		rels := map[string]any{}
		for _, r := range n.Relations {
			r := r
			rels[r.Name] = map[string]any{"types": r.Types, "rewrite": r.SubjectSetRewrite}
		}
		m[n.Name] = rels
	}
	b, _ := json.Marshal(m)
	return string(b)
}

// ---------------------------------------------------------------- registry

type regOpts struct {
	nss    []*namespace.Namespace
	opl    string
	strict bool
	width  int
	gdepth int
}

func newRegistry(t testing.TB, o regOpts) *driver.RegistryDefault {
	opts := []driver.TestRegistryOption{driver.WithLogLevel("panic")}
	if o.opl != "" {
		opts = append(opts, driver.WithOPL(o.opl))
	} else {
		opts = append(opts, driver.WithNamespaces(o.nss))
	}
	if o.strict {
		opts = append(opts, driver.WithConfig(config.KeyNamespacesExperimentalStrictMode, true))
	}
	if o.width > 0 {
		opts = append(opts, driver.WithConfig(config.KeyLimitMaxReadWidth, o.width))
	}
	if o.gdepth > 0 {
		opts = append(opts, driver.WithConfig(config.KeyLimitMaxReadDepth, o.gdepth))
	}
	return driver.NewSqliteTestRegistry(t, false, opts...)
}

// ---------------------------------------------------------------- storage wrapper: log, fault, delay

type callRec struct {
	Seq  int    `json:"seq"`
	Kind string `json:"kind"` // exists | list | expand | rewrite
	Arg  string `json:"arg"`
	Res  string `json:"res"`
	Err  bool   `json:"err"`
}

// runState is the per-request state of the storage wrapper. It travels in the
// request context, so storage calls still issued by stragglers of an earlier
// request are never attributed to the current one.
type runState struct {
	mu        sync.Mutex
	seq       int
	log       []callRec
	keepLog   bool
	failAt    int   // the k-th call fails (1-based); 0 = none
	failAll   bool  // persistent: every call from failAt on fails
	failErr   error // error to return
	cancelAt  int   // call cancelFn before the k-th call
	cancelFn  context.CancelFunc
	delaySeed uint64 // != 0: pseudo-random delays per call
	// slowAfterCancel: once cancelFn has been called, storage calls behave like a slow database that honours its context: they
	// return the context's error as soon as the context they were given is done, and otherwise only after slowFor (once)
	slowAfterCancel bool
	slowFor         time.Duration
	cancelled       bool
	slowSpent       bool
	// overlap family: pre runs before the k-th call is let through; reads hold rw
	// shared while they run and are reported to obs before they release it
	pre func(k int)
	rw  *sync.RWMutex
	obs func(kind string, arg any, res any, err error)
}

// rlock takes the read side of the request's gate (if any) for one storage read.
func (rs *runState) rlock() func() {
	if rs == nil || rs.rw == nil {
		return func() {}
	}
	rs.rw.RLock()
	return rs.rw.RUnlock
}

func (rs *runState) observe(kind string, arg any, res any, err error) {
	if rs != nil && rs.obs != nil {
		rs.obs(kind, arg, res, err)
	}
}

type rsKeyT struct{}

func withRunState(ctx context.Context, rs *runState) context.Context {
	return context.WithValue(ctx, rsKeyT{}, rs)
}

func (rs *runState) calls() int {
	rs.mu.Lock()
	defer rs.mu.Unlock()
	return rs.seq
}

// storeWrap wraps the Manager and Traverser the engine uses.
type storeWrap struct {
	relationtuple.Manager
	tr relationtuple.Traverser
}

var errInjected = errors.New("verif: injected storage failure")

// enter numbers the call within its request and decides whether it fails.
func (w *storeWrap) enter(ctx context.Context, kind string) (*runState, int, error) {
	rs, _ := ctx.Value(rsKeyT{}).(*runState)
	if rs == nil {
		return nil, 0, nil
	}
	rs.mu.Lock()
	rs.seq++
	k := rs.seq
	var err error
	if rs.failAt != 0 && (k == rs.failAt || (rs.failAll && k > rs.failAt)) {
		err = rs.failErr
		if err == nil {
			err = errInjected
		}
	}
	cf := rs.cancelFn
	doCancel := rs.cancelAt != 0 && k == rs.cancelAt
	seed := rs.delaySeed
	pre := rs.pre
	if doCancel {
		rs.cancelled = true
	}
	slow := rs.slowAfterCancel && rs.cancelled && !rs.slowSpent
	slowFor := rs.slowFor
	rs.mu.Unlock()
	if pre != nil {
		pre(k)
	}
	if doCancel && cf != nil {
		cf()
	}
	if slow && err == nil {
		select {
		case <-ctx.Done():
			err = ctx.Err()
		case <-time.After(slowFor):
			rs.mu.Lock()
			rs.slowSpent = true
			rs.mu.Unlock()
		}
	}
	if seed != 0 {
		h := fnv.New64a()
		fmt.Fprintf(h, "%d/%d/%s", seed, k, kind)
		switch h.Sum64() % 5 {
		case 0:
			runtime.Gosched()
		case 1:
			time.Sleep(20 * time.Microsecond)
		case 2:
			time.Sleep(200 * time.Microsecond)
		}
	}
	return rs, k, err
}

func (rs *runState) leave(k int, kind, arg, res string, err error) {
	if rs == nil || !rs.keepLog {
		return
	}
	rs.mu.Lock()
	rs.log = append(rs.log, callRec{Seq: k, Kind: kind, Arg: arg, Res: res, Err: err != nil})
	rs.mu.Unlock()
}

func (w *storeWrap) ExistsRelationTuples(ctx context.Context, q *relationtuple.RelationQuery) (bool, error) {
	rs, k, ferr := w.enter(ctx, "exists")
	if ferr != nil {
		rs.leave(k, "exists", qstr(q), "", ferr)
		return false, ferr
	}
	defer rs.rlock()()
	ok, err := w.Manager.ExistsRelationTuples(ctx, q)
	rs.observe("exists", q, ok, err)
	rs.leave(k, "exists", qstr(q), fmt.Sprint(ok), err)
	return ok, err
}

func (w *storeWrap) GetRelationTuples(ctx context.Context, q *relationtuple.RelationQuery, o ...x.PaginationOptionSetter) ([]*relationtuple.RelationTuple, string, error) {
	rs, k, ferr := w.enter(ctx, "list")
	if ferr != nil {
		rs.leave(k, "list", qstr(q), "", ferr)
		return nil, "", ferr
	}
	defer rs.rlock()()
	ts, next, err := w.Manager.GetRelationTuples(ctx, q, o...)
	rs.observe("list", q, ts, err)
	rs.leave(k, "list", qstr(q), fmt.Sprintf("%d/%s", len(ts), next), err)
	return ts, next, err
}

func qstr(q *relationtuple.RelationQuery) string {
	b, _ := json.Marshal(q)
	return string(b)
}

type travWrap struct{ w *storeWrap }

func (t travWrap) TraverseSubjectSetExpansion(ctx context.Context, tuple *relationtuple.RelationTuple) ([]*relationtuple.TraversalResult, error) {
	rs, k, ferr := t.w.enter(ctx, "expand")
	if ferr != nil {
		rs.leave(k, "expand", tuple.String(), "", ferr)
		return nil, ferr
	}
	defer rs.rlock()()
	res, err := t.w.tr.TraverseSubjectSetExpansion(ctx, tuple)
	rs.observe("expand", tuple, res, err)
	rs.leave(k, "expand", tuple.String(), fmt.Sprint(len(res)), err)
	return res, err
}

func (t travWrap) TraverseSubjectSetRewrite(ctx context.Context, tuple *relationtuple.RelationTuple, css []string) ([]*relationtuple.TraversalResult, error) {
	rs, k, ferr := t.w.enter(ctx, "rewrite")
	if ferr != nil {
		rs.leave(k, "rewrite", tuple.String(), "", ferr)
		return nil, ferr
	}
	defer rs.rlock()()
	res, err := t.w.tr.TraverseSubjectSetRewrite(ctx, tuple, css)
	rs.observe("rewrite", tuple, res, err)
	rs.leave(k, "rewrite", tuple.String(), fmt.Sprint(len(res)), err)
	return res, err
}

// engineDeps satisfies check.EngineDependencies with the wrapped storage.
type cfgProvider = config.Provider
type engineDeps struct {
	relationtuple.MapperProvider
	cfgProvider
	x.LoggerProvider
	x.TracingProvider
	x.NetworkIDProvider
	w *storeWrap
	p persistence.Persister
}

func (d *engineDeps) RelationTupleManager() relationtuple.Manager { return d.w }
func (d *engineDeps) Persister() persistence.Persister            { return d.p }
func (d *engineDeps) Traverser() relationtuple.Traverser          { return travWrap{d.w} }

func newEngineDeps(reg *driver.RegistryDefault) (*engineDeps, *storeWrap) {
	w := &storeWrap{Manager: reg.RelationTupleManager(), tr: reg.Traverser()}
	return &engineDeps{MapperProvider: reg, cfgProvider: reg, LoggerProvider: reg, TracingProvider: reg,
		NetworkIDProvider: reg, w: w, p: reg.Persister()}, w
}

// ---------------------------------------------------------------- database state

// resetTuples deletes every relationship (retrying while stragglers of a
// cancelled check still hold the table).
func resetTuples(t testing.TB, reg *driver.RegistryDefault) {
	conn := reg.Persister().Connection(context.Background())
	for try := 0; ; try++ {
		err := conn.RawQuery("DELETE FROM keto_relation_tuples").Exec()
		if err == nil {
			return
		}
		if try > 2000 {
			t.Fatalf("cannot reset tuples: %v", err)
		}
		time.Sleep(2 * time.Millisecond)
	}
}

// writeOrdered writes the tuples through the real mapper and manager and then
// imposes the storage order: the i-th tuple gets the i-th smallest shard_id.
func writeOrdered(t testing.TB, reg *driver.RegistryDefault, tuples []*ketoapi.RelationTuple) {
	ctx := context.Background()
	conn := reg.Persister().Connection(ctx)
	for i, rt := range tuples {
		// stragglers of an earlier (cancelled) check may still hold the table: sqlite lock errors are retried
		var its []*relationtuple.RelationTuple
		retry(t, "map", func() (err error) { its, err = reg.Mapper().FromTuple(ctx, rt); return })
		retry(t, "write", func() error { return reg.RelationTupleManager().WriteRelationTuples(ctx, its...) })
		retry(t, "order", func() error {
			return conn.RawQuery("UPDATE keto_relation_tuples SET shard_id = ? WHERE rowid = (SELECT MAX(rowid) FROM keto_relation_tuples)",
				fmt.Sprintf("00000000-0000-4000-8000-%012d", i+1)).Exec()
		})
	}
}

func retry(t testing.TB, what string, f func() error) {
	for try := 0; ; try++ {
		err := f()
		if err == nil {
			return
		}
		msg := err.Error()
		if try > 1500 || !(strings.Contains(msg, "locked") || strings.Contains(msg, "serialize access") || strings.Contains(msg, "busy")) {
			t.Fatalf("%s: %v", what, err)
		}
		time.Sleep(2 * time.Millisecond)
	}
}

// writeOrderedRaw is writeOrdered without touching the registry's lazily
// created mapper: ids are computed with UUIDv5 and rows are written with the persister.
func writeOrderedRaw(t testing.TB, reg *driver.RegistryDefault, tuples []*ketoapi.RelationTuple) {
	ctx := context.Background()
	p := reg.Persister()
	conn := p.Connection(ctx)
	for i, rt := range tuples {
		names := []string{rt.Object}
		if rt.SubjectID != nil {
			names = append(names, *rt.SubjectID)
		} else {
			names = append(names, rt.SubjectSet.Object)
		}
		ids, err := p.MapStringsToUUIDs(ctx, names...)
		if err != nil {
			t.Fatalf("map: %v", err)
		}
		it := &relationtuple.RelationTuple{Namespace: rt.Namespace, Object: ids[0], Relation: rt.Relation}
		if rt.SubjectID != nil {
			it.Subject = &relationtuple.SubjectID{ID: ids[1]}
		} else {
			it.Subject = &relationtuple.SubjectSet{Namespace: rt.SubjectSet.Namespace, Object: ids[1], Relation: rt.SubjectSet.Relation}
		}
		if err := p.WriteRelationTuples(ctx, it); err != nil {
			t.Fatalf("write: %v", err)
		}
		if err := conn.RawQuery("UPDATE keto_relation_tuples SET shard_id = ? WHERE rowid = (SELECT MAX(rowid) FROM keto_relation_tuples)",
			fmt.Sprintf("00000000-0000-4000-8000-%012d", i+1)).Exec(); err != nil {
			t.Fatalf("order: %v", err)
		}
	}
}

func internalTuple(t testing.TB, reg *driver.RegistryDefault, rt *ketoapi.RelationTuple) *relationtuple.RelationTuple {
	its, err := reg.ReadOnlyMapper().FromTuple(context.Background(), rt)
	if err != nil {
		t.Fatalf("map query %v: %v", rt, err)
	}
	return its[0]
}

// ---------------------------------------------------------------- io helpers

func readJSON(path string, v any) {
	b, err := os.ReadFile(path)
	if err != nil {
		panic(err)
	}
	if err := json.Unmarshal(b, v); err != nil {
		panic(fmt.Sprintf("%s: %v", path, err))
	}
}

type ndWriter struct {
	mu sync.Mutex
	f  *os.File
	w  *bufio.Writer
}

func newNDWriter(path string) *ndWriter {
	f, err := os.Create(path)
	if err != nil {
		panic(err)
	}
	return &ndWriter{f: f, w: bufio.NewWriterSize(f, 1<<20)}
}

func (n *ndWriter) write(v any) {
	b, err := json.Marshal(v)
	if err != nil {
		panic(err)
	}
	n.mu.Lock()
	n.w.Write(b)
	n.w.WriteByte('\n')
	n.mu.Unlock()
}

// soft hands the buffered records to the operating system (they survive the death of the process) without syncing the disk.
func (n *ndWriter) soft() {
	n.mu.Lock()
	n.w.Flush()
	n.mu.Unlock()
}

func (n *ndWriter) flush() {
	n.mu.Lock()
	n.w.Flush()
	n.f.Sync()
	n.mu.Unlock()
}

func (n *ndWriter) close() {
	n.mu.Lock()
	defer n.mu.Unlock()
	n.w.Flush()
	n.f.Close()
}

// ketoGoroutines counts goroutines that have a keto frame below the harness.
func ketoGoroutines() (int, string) {
	buf := make([]byte, 1<<22)
	buf = buf[:runtime.Stack(buf, true)]
	n := 0
	var sample string
	for _, g := range strings.Split(string(buf), "\n\n") {
		if strings.Contains(g, "github.com/ory/keto/internal/check") && !strings.Contains(g, "zzverif.ketoGoroutines") {
			n++
			if sample == "" {
				sample = g
			}
		}
	}
	return n, sample
}

// grpcWire does to a handler's reply what the gRPC server does with it next: it marshals it. A reply that cannot be
// marshalled (a string field that is not valid UTF-8) reaches the client as codes.Internal.
func grpcWire[M proto.Message](m M, err error) (M, error) {
	if err != nil {
		return m, err
	}
	if _, merr := proto.Marshal(m); merr != nil {
		return m, status.Errorf(codes.Internal, "grpc: error while marshaling: %v", merr)
	}
	return m, nil
}

// jsonText is what encoding/json makes of a string: every byte that is not part of valid UTF-8 becomes U+FFFD.
func jsonText(s string) string {
	b, _ := json.Marshal(s)
	var out string
	_ = json.Unmarshal(b, &out)
	return out
}
