"""C19: Reload.tla (exhaustive) + write sequences on the real watchers validated by TraceReload.tla"""
import json, random
import lib
from lib import *


def validate(text):
    cfg = 'SPECIFICATION Spec\nCONSTANT TraceFile = "rl.ndjson"\nPOSTCONDITION Accepted\nCHECK_DEADLOCK FALSE\n'
    r = tlc("TraceReload", "trl.cfg", files={"trl.cfg": cfg, "rl.ndjson": text}, workers=1, heap="2g", want_lines=False)
    validate.matched = r.depth - 1
    return r.ok


def c19(tier):
    ck = Check("C19", tier)
    binary = build_harness()
    # the design: exhaustive over writes, removals, watcher reads (coalescing) and handler steps
    for variant in ("opl", "legacy"):
        for inv in ("Inv1", "Inv2", "Inv3"):
            cfg = write_cfg(['Files = {"a", "b"}', "MaxVer = %d" % (3 if tier == "quick" else 4), "Invalid <- %s" % inv, 'Variant = "%s"' % variant,
                             "OneShotReader = FALSE", "MaxQueue = 2"],
                            invariants=["VisibleIsValidVersion", "Converges"], properties=["NeverEmptyAfterValid"])
            r = tlc("Reload", "r.cfg", files={"r.cfg": cfg}, want_lines=False, workers=8)
            ck.add_tlc(r)
            if r.violation:
                ck.violation("Reload.tla (%s, %s): %s" % (variant, inv, r.violation), {"tlc": r.raw_tail[-2500:]})
    # write sequences for the real watchers
    rnd = random.Random(seed())
    nseq = 48 if tier == "quick" else 4000
    import p_reconf
    p_reconf.nsstore(ck, tier)
    seqs = []
    variants = ["opl", "opl", "opl", "json", "yaml", "toml"]
    for i in range(nseq):
        variant = variants[i % len(variants)]
        single = (i % 4 == 3)
        files = ["a"] if single else ["a", "b"]
        steps = []
        for _ in range(rnd.randrange(3, 9)):
            f = rnd.choice(files)
            kind = rnd.choices(["valid", "invalid", "remove"], weights=[5, 3, 0 if single else 1])[0]
            steps.append({"f": f, "kind": kind})
        seqs.append({"id": i, "variant": variant, "single": single, "steps": steps})
    # fixed sequences: both files valid, then one replaced (the recorded multi-file defect), invalid then valid elsewhere
    seqs.append({"id": len(seqs), "variant": "opl", "single": False, "steps": [{"f": "a", "kind": "valid"}, {"f": "b", "kind": "valid"}, {"f": "a", "kind": "valid"}]})
    seqs.append({"id": len(seqs), "variant": "opl", "single": False, "steps": [{"f": "a", "kind": "valid"}, {"f": "b", "kind": "valid"}, {"f": "b", "kind": "invalid"}, {"f": "a", "kind": "valid"}, {"f": "b", "kind": "valid"}]})
    # a file whose FIRST version is invalid, a valid change of the other file meanwhile, then the repair: everything on disk is
    # valid at the end and the latest versions of both must be served
    seqs.append({"id": len(seqs), "variant": "opl", "single": False, "steps": [{"f": "a", "kind": "valid"}, {"f": "b", "kind": "invalid"}, {"f": "a", "kind": "valid"}, {"f": "b", "kind": "valid"}]})
    seqs.append({"id": len(seqs), "variant": "opl", "single": False, "steps": [{"f": "b", "kind": "invalid"}, {"f": "a", "kind": "valid"}, {"f": "a", "kind": "valid"}, {"f": "b", "kind": "valid"}, {"f": "a", "kind": "valid"}]})
    for variant in ("json", "yaml"):
        seqs.append({"id": len(seqs), "variant": variant, "single": False, "steps": [{"f": "a", "kind": "valid"}, {"f": "b", "kind": "invalid"}, {"f": "a", "kind": "valid"}, {"f": "b", "kind": "valid"}]})
    recs = {x["id"]: x for x in run_harness(binary, "reload", {"seqs": seqs}, timeout=2400)}
    ok_traces = 0
    per = {}
    for sq in seqs:
        ob = recs.get(sq["id"])
        if ob is None:
            raise Inconclusive("sequence %d not executed" % sq["id"])
        ck.evaluations += 1
        evs = [{"ev": "reset", "variant": "opl" if sq["variant"] == "opl" else "legacy"}]
        for e in ob["events"]:
            e = dict(e)
            if e["ev"] == "stuck":
                ck.violation("during a sequence of file changes the namespace store stopped answering: listing the namespaces, preceded by the lookup of a name no version "
                             "configures, had not returned after 10 s (%s watcher), so the last valid version never takes effect" % sq["variant"], {"sequence": sq})
                continue
            if e["ev"] == "phantom":
                ck.violation("a namespace that no version of any file configures was found by name", {"sequence": sq})
                continue
            if e["ev"] in ("obs", "final"):
                e.setdefault("o_a", 0); e.setdefault("o_b", 0)
            evs.append(e)
        per[sq["id"]] = evs
        if len(ck.samples) < 2 and len(evs) > 6:
            ck.sample({"sequence": sq, "events": evs[:10]})
    # one TLC run over all traces; only if that is rejected are the sequences validated one by one
    alltext = "".join("\n".join(json.dumps(e) for e in per[sq["id"]]) + "\n" for sq in seqs)
    if validate(alltext):
        ok_traces = len(seqs)
        for sq in seqs:
            if any(e["ev"] == "obs" for e in per[sq["id"]]):
                ck.nontrivial.add(sq["id"])
    else:
        for sq in seqs:
            evs = per[sq["id"]]
            if validate("\n".join(json.dumps(e) for e in evs) + "\n"):
                ok_traces += 1
                ck.nontrivial.add(sq["id"])
            else:
                m = validate.matched
                ck.violation("the namespaces visible during/after a sequence of file changes are not allowed by Reload.tla (%s watcher, %s target)" % (
                    sq["variant"], "single file" if sq["single"] else "directory"),
                    {"sequence": sq, "rejected_event": evs[m] if m < len(evs) else None, "events_before": evs[max(0, m - 6):m]})
    ck.traces += ok_traces
    # binding self-test: an observation of a never-written version must be rejected
    bad = '{"ev":"reset","variant":"opl"}\n{"ev":"write","f":"a","v":1,"valid":true}\n{"ev":"obs","o_a":2,"o_b":0}\n'
    if validate(bad):
        raise Inconclusive("self-test failed: a trace showing a never-written version was accepted")
    bad = '{"ev":"reset","variant":"opl"}\n{"ev":"write","f":"a","v":1,"valid":true}\n{"ev":"obs","o_a":1,"o_b":0}\n{"ev":"obs","o_a":0,"o_b":0}\n'
    if validate(bad):
        raise Inconclusive("self-test failed: a trace that goes back to nothing was accepted")
    bad = ('{"ev":"reset","variant":"opl"}\n{"ev":"write","f":"a","v":1,"valid":true}\n{"ev":"obs","o_a":1,"o_b":0}\n{"ev":"remove","f":"a"}\n'
           '{"ev":"obs","o_a":1,"o_b":0}\n{"ev":"obs","o_a":0,"o_b":0}\n{"ev":"write","f":"a","v":2,"valid":true}\n{"ev":"obs","o_a":2,"o_b":0}\n')
    if not validate(bad):
        raise Inconclusive("self-test failed: a removal that is processed after the old version was seen once more was rejected")
    if validate(bad + '{"ev":"obs","o_a":0,"o_b":0}\n'):
        raise Inconclusive("self-test failed: nothing shown after a version written after the removal was accepted")
    ck.extra["trace_selftests_rejected"] = 3
    ck.extra["sequences"] = len(seqs)
    ck.rule = ("random write/remove sequences (valid, syntactically invalid, type-incorrect versions; one or two files; OPL directory and single-file targets; legacy JSON/YAML/TOML "
               "directories) executed with atomic renames against the real fsnotify-backed watchers while a sampler reads Namespaces() every 150 us; the recorded log is validated by TLC "
               "against TraceReload.tla; non-trivial: the sampler saw at least one change")
    ck.assumptions = ["fsnotify delivers an event for an atomic rename", "the final state is awaited for up to 15 s", "observations are ordered against writes STARTED, not completed"]
    ck.finish()
