#!/bin/bash
# runs every registered check of a tier, one after the other; prints one line per check
tier=${1:-quick}
cd "$(dirname "$0")/.."
# (my own sessions serialise users of /repo's working tree with this lock; it is not needed for a single run)
if [ -z "$VERIF_REPO" ]; then exec 9>/tmp/repo.lock; flock 9; fi
for id in $(python3 -c "import json; print(' '.join(c['property_id'] for c in json.load(open('MANIFEST.json'))['checks']))"); do
  s=$(date +%s)
  out=$(python3 run/check.py $id --tier $tier 2>/tmp/verif_all_$id.err); rc=$?
  e=$(date +%s)
  echo "$id rc=$rc $((e-s))s $(echo "$out" | grep -E 'VIOLATION|KNOWN|OK property' | tr '\n' ' ' | cut -c1-220)"
done
