package zzverif

import (
	"context"
	"sync/atomic"

	"encoding/json"
	"fmt"
	"github.com/ory/keto/internal/check"
	"github.com/ory/keto/internal/relationtuple"
	"net/url"
	"runtime"
	"strings"
	"sync"
	"testing"
	"time"

	"github.com/ory/keto/ketoapi"
	rts "github.com/ory/keto/proto/ory/keto/relation_tuples/v1alpha2"
)

// C14: the same requests concurrently (on a registry that has served nothing
// yet, so that the lazily created singletons are hit) and alone.

type concIn struct {
	Def     *famDef  `json:"def"`
	States  [][]int  `json:"states"`
	Queries []jtuple `json:"queries"`
	Rounds  int      `json:"rounds"`
	Par     int      `json:"par"`
	Only    string   `json:"only"` // "cancel": only the rounds with abandoned requests (run in a binary without the race detector, too)
}

type concReq struct {
	kind    string
	q       *ketoapi.RelationTuple
	depth   int           // max-depth of the request (0 = default)
	timeout time.Duration // > 0: the request's context ends after this time (a client that gives up)
}

func (e *storeEnv) concDo(r concReq) string {
	defer func() { recover() }()
	ctx := e.ctx("A")
	if r.timeout > 0 {
		var cancel context.CancelFunc
		ctx, cancel = context.WithTimeout(ctx, r.timeout)
		defer cancel()
	}
	switch r.kind {
	case "rest_check":
		qs := r.q.ToURLQuery()
		if r.depth > 0 {
			qs.Set("max-depth", fmt.Sprint(r.depth))
		}
		code, body := e.doCtx(ctx, e.rr, "GET", "/relation-tuples/check/openapi?"+qs.Encode(), nil)
		return fmt.Sprintf("%d %s", code, body)
	case "rest_batch":
		b, _ := json.Marshal(map[string]any{"tuples": []*ketoapi.RelationTuple{r.q, r.q}})
		target := "/relation-tuples/batch/check"
		if r.depth > 0 {
			target += fmt.Sprintf("?max-depth=%d", r.depth)
		}
		code, body := e.doCtx(ctx, e.rr, "POST", target, b)
		return fmt.Sprintf("%d %s", code, body)
	case "rest_expand":
		d := "4"
		if r.depth > 0 {
			d = fmt.Sprint(r.depth)
		}
		q := url.Values{"namespace": {r.q.Namespace}, "object": {r.q.Object}, "relation": {r.q.Relation}, "max-depth": {d}}
		code, body := e.doCtx(ctx, e.rr, "GET", "/relation-tuples/expand?"+q.Encode(), nil)
		return fmt.Sprintf("%d %s", code, body)
	case "rest_list":
		q := url.Values{"namespace": {r.q.Namespace}, "page_size": {"3"}}
		out := ""
		for {
			code, body := e.do("A", e.rr, "GET", "/relation-tuples?"+q.Encode(), nil)
			var resp ketoapi.GetResponse
			json.Unmarshal(body, &resp)
			out += fmt.Sprintf("%d:", code)
			for _, t := range resp.RelationTuples {
				out += t.String() + ";"
			}
			if resp.NextPageToken == "" || code != 200 {
				return out
			}
			q.Set("page_token", resp.NextPageToken)
		}
	case "rest_put":
		b, _ := json.Marshal(r.q)
		code, _ := e.do("A", e.wr, "PUT", "/admin/relation-tuples", b)
		return fmt.Sprint(code)
	case "rest_patch":
		b, _ := json.Marshal([]map[string]any{{"action": "insert", "relation_tuple": r.q}, {"action": "delete", "relation_tuple": r.q}})
		code, _ := e.do("A", e.wr, "PATCH", "/admin/relation-tuples", b)
		return fmt.Sprint(code)
	case "rest_delete":
		code, _ := e.do("A", e.wr, "DELETE", "/admin/relation-tuples?"+r.q.ToURLQuery().Encode(), nil)
		return fmt.Sprint(code)
	case "grpc_transact":
		_, err := e.rt.TransactRelationTuples(ctx, &rts.TransactRelationTuplesRequest{RelationTupleDeltas: []*rts.RelationTupleDelta{
			{Action: rts.RelationTupleDelta_ACTION_INSERT, RelationTuple: r.q.ToProto()}}})
		return fmt.Sprint(err)
	case "grpc_check":
		resp, err := e.ch.Check(ctx, &rts.CheckRequest{Tuple: r.q.ToProto(), MaxDepth: int32(r.depth)})
		if err != nil {
			return "err " + err.Error()
		}
		return fmt.Sprint(resp.Allowed)
	case "grpc_list":
		resp, err := e.rt.ListRelationTuples(ctx, &rts.ListRelationTuplesRequest{RelationQuery: &rts.RelationQuery{Namespace: &r.q.Namespace}})
		if err != nil {
			return "err " + err.Error()
		}
		out := ""
		for _, t := range resp.RelationTuples {
			out += (&ketoapi.RelationTuple{}).FromProto(t).String() + ";"
		}
		return out
	}
	return "?"
}

func init() { families["conc"] = famConc }

func famConc(t *testing.T) {
	var in concIn
	readJSON(*fIn, &in)
	out := newNDWriter(*fOut)
	defer out.close()
	si, sn := shard()
	kinds := []string{"rest_check", "rest_batch", "rest_expand", "rest_list", "grpc_check", "grpc_list"}
	// reference answers of the cancel rounds, computed before any request of this process was abandoned
	refs := map[int][]string{}
	durs := map[int][]time.Duration{}
	for round := 0; round < in.Rounds; round++ {
		if round%sn != si || round%3 != 2 || in.Only == "expand" || in.Only == "depth" {
			continue
		}
		t.Run(fmt.Sprintf("ref%d", round), func(t *testing.T) {
			e := concRegistry(t, &in, in.States[round%len(in.States)])
			for _, r := range cancelReqs(&in, round) {
				r.timeout = 0
				e.concDo(r) // warm up: the first request of a registry pays for lazily created members
				t0 := time.Now()
				refs[round] = append(refs[round], e.concDo(r))
				durs[round] = append(durs[round], time.Since(t0))
			}
		})
	}
	for round := 0; round < in.Rounds; round++ {
		if round%sn != si {
			continue
		}
		S := in.States[round%len(in.States)]
		if in.Only == "depth" {
			S = in.States[0] // the state in which the answers of the queries depend on the depth
		}
		if in.Only == "expand" && round%2 == 0 {
			continue // only the rounds that hammer one subject set
		}
		if round%3 == 2 && in.Only != "expand" && in.Only != "depth" {
			t.Run(fmt.Sprintf("c%d", round), func(t *testing.T) { cancelRound(t, &in, round, S, refs[round], durs[round], out) })
		}
		if in.Only == "expand" || in.Only == "depth" {
			// falls through to the read-only round below (odd rounds only), no mixed round
		} else if in.Only == "cancel" {
			if round%9 == 2 {
				t.Run(fmt.Sprintf("b%d", round), func(t *testing.T) { burstRound(t, &in, round, S, out) })
			}
			continue
		}
		t.Run(fmt.Sprintf("r%d", round), func(t *testing.T) {
			// every fourth round runs with max_read_width 1, so that the engine's truncation path is taken by many requests at once
			ro := regOpts{opl: in.Def.Cfg.opl(), gdepth: 8}
			wideRound := (round%4 == 1 || round%4 == 2) && in.Only != "depth"
			if wideRound {
				ro.width = 1
			}
			reg := newRegistry(t, ro)
			var stored []*ketoapi.RelationTuple
			for _, i := range S {
				stored = append(stored, in.Def.U[i-1].api())
			}
			if wideRound {
				// ... and with nodes that are wider than that: three more subject sets on the relations the queries go through
				for _, node := range [][2]string{{"D", "d"}, {"G", "g"}, {"G", "h"}} {
					for _, rel := range []string{"a", "b", "m"} {
						if (node[0] == "D") != (rel != "m") {
							continue
						}
						for k := 1; k <= 3; k++ {
							stored = append(stored, &ketoapi.RelationTuple{Namespace: node[0], Object: node[1], Relation: rel,
								SubjectSet: &ketoapi.SubjectSet{Namespace: "G", Object: fmt.Sprintf("extra%d", k), Relation: "m"}})
						}
					}
				}
			}
			// written through the persister directly: the registry's lazy getters stay untouched
			writeOrderedRaw(t, reg, stored)
			e := envFor(t, reg)
			var reqs []concReq
			for i := 0; i < in.Par; i++ {
				rq := concReq{kind: kinds[(i+round)%len(kinds)], q: in.Queries[(i*7+round)%len(in.Queries)].api()}
				if in.Only == "depth" {
					// single checks of ONE tuple whose answer depends on the depth, at every depth 1..8, released together
					rq.q = in.Queries[round%len(in.Queries)].api()
					rq.depth = 1 + (i+round)%8
					rq.kind = []string{"rest_check", "grpc_check", "rest_check", "rest_batch"}[i%4]
				} else if round%2 == 1 {
					// odd rounds: many requests for the SAME tuple with different max-depth values
					rq.q = in.Queries[round%len(in.Queries)].api()
					rq.depth = 1 + (i*3)%7
					if i%2 == 0 {
						rq.kind = "rest_check"
					} else {
						rq.kind = "grpc_check"
					}
					if round%4 == 3 || in.Only == "expand" {
						// ... and expands of the SAME subject set with different max-depth values
						rq.kind = "rest_expand"
						rq.q = &ketoapi.RelationTuple{Namespace: "G", Object: []string{"g", "h"}[i%2], Relation: "m"}
						if i%5 == 4 {
							rq.q = &ketoapi.RelationTuple{Namespace: "R", Object: "r", Relation: "v"}
						}
					}
				}
				reqs = append(reqs, rq)
			}
			rec.start()
			results := make([]string, len(reqs))
			var wg sync.WaitGroup
			start := make(chan struct{})
			for i := range reqs {
				wg.Add(1)
				go func(i int) {
					defer wg.Done()
					<-start
					results[i] = e.concDo(reqs[i])
				}(i)
			}
			close(start)
			wg.Wait()
			waitNoKetoGoroutines(2e9)
			rec.stop()
			concSets := rec.visitedSets()
			// the same requests, one after the other
			rec.start()
			alone := make([]string, len(reqs))
			for i := range reqs {
				alone[i] = e.concDo(reqs[i])
			}
			waitNoKetoGoroutines(2e9)
			rec.stop()
			aloneSets := rec.visitedSets()
			var diffs []map[string]any
			for i := range reqs {
				if results[i] != alone[i] {
					diffs = append(diffs, map[string]any{"kind": reqs[i].kind, "query": reqs[i].q.String(), "concurrent": trunc(results[i], 400), "alone": trunc(alone[i], 400)})
				}
			}
			out.write(map[string]any{"round": round, "requests": len(reqs), "diffs": diffs,
				"visited_sets_concurrent": len(concSets), "visited_sets_alone": len(aloneSets),
				"visited_same": fmt.Sprint(concSets) == fmt.Sprint(aloneSets)})
		})
		if round%2 == 0 && in.Only != "depth" {
			t.Run(fmt.Sprintf("m%d", round), func(t *testing.T) { mixedRound(t, &in, round, S, out) })
		}
	}
}

// cancelRound: half of the requests belong to clients that give up after a short
// time, the others run to completion next to them. The reference answers were
// computed at process start, before any request was ever abandoned. A request
// that ran to completion, and every request of a sequential pass afterwards,
// must answer like the reference; an abandoned request may fail, but if it
// answers it must answer like the reference too.
func cancelReqs(in *concIn, round int) []concReq {
	kinds := []string{"rest_check", "grpc_check", "rest_batch", "rest_expand", "grpc_check", "rest_check"}
	var reqs []concReq
	for i := 0; i < in.Par; i++ {
		rq := concReq{kind: kinds[(i+round)%len(kinds)], q: in.Queries[(i*5+round)%len(in.Queries)].api()}
		if i%2 == 1 {
			rq.timeout = -1 // a client that gives up; when is decided from the time the request takes alone
		}
		reqs = append(reqs, rq)
	}
	return reqs
}

func concRegistry(t *testing.T, in *concIn, S []int) *storeEnv {
	reg := newRegistry(t, regOpts{opl: in.Def.Cfg.opl(), gdepth: 8})
	var stored []*ketoapi.RelationTuple
	for _, i := range S {
		stored = append(stored, in.Def.U[i-1].api())
	}
	writeOrderedRaw(t, reg, stored)
	return envFor(t, reg)
}

func failedReply(s string) bool {
	// (a batch check answers 200 and carries the error per entry)
	return strings.HasPrefix(s, "err ") || (len(s) >= 3 && s[0] >= '0' && s[0] <= '9' && !strings.HasPrefix(s, "200")) ||
		strings.Contains(s, "context deadline exceeded") || strings.Contains(s, "context canceled")
}

func cancelRound(t *testing.T, in *concIn, round int, S []int, ref []string, durs []time.Duration, out *ndWriter) {
	// schedules: these rounds alternate between one, two and all processors
	if procs := []int{1, 2, 0}[(round/3)%3]; procs > 0 {
		defer runtime.GOMAXPROCS(runtime.GOMAXPROCS(procs))
	}
	e := concRegistry(t, in, S)
	reqs := cancelReqs(in, round)
	for i := range reqs {
		if reqs[i].timeout != 0 {
			// somewhere between 5% and 95% of the way through the request as it ran alone
			reqs[i].timeout = durs[i]*time.Duration(5+(i*37+round*11)%91)/100 + time.Microsecond
		}
	}
	results := make([]string, len(reqs))
	var wg sync.WaitGroup
	start := make(chan struct{})
	for i := range reqs {
		wg.Add(1)
		go func(i int) {
			defer wg.Done()
			<-start
			results[i] = e.concDo(reqs[i])
		}(i)
	}
	close(start)
	wg.Wait()
	var diffs []map[string]any
	gaveUp := 0
	for i := range reqs {
		if reqs[i].timeout > 0 && failedReply(results[i]) {
			gaveUp++
			continue
		}
		if results[i] != ref[i] {
			diffs = append(diffs, map[string]any{"kind": reqs[i].kind, "query": reqs[i].q.String(), "abandoned_client": reqs[i].timeout > 0,
				"concurrent": trunc(results[i], 400), "alone": trunc(ref[i], 400), "phase": "next to abandoned requests"})
		}
	}
	// afterwards, one by one: an abandoned request, then a request without any deadline, and so on
	for i := range reqs {
		r := reqs[i]
		if r.timeout > 0 {
			if got := e.concDo(r); failedReply(got) {
				gaveUp++
			} else if got != ref[i] {
				diffs = append(diffs, map[string]any{"kind": r.kind, "query": r.q.String(), "abandoned_client": true, "concurrent": trunc(got, 400),
					"alone": trunc(ref[i], 400), "phase": "alone, after requests were abandoned"})
			}
			continue
		}
		if got := e.concDo(r); got != ref[i] {
			diffs = append(diffs, map[string]any{"kind": r.kind, "query": r.q.String(), "concurrent": trunc(got, 400), "alone": trunc(ref[i], 400),
				"phase": "alone, right after a request was abandoned"})
		}
	}
	waitNoKetoGoroutines(2e9)
	out.write(map[string]any{"cancel_round": round, "requests": 2 * len(reqs), "abandoned": gaveUp, "diffs": diffs})
}

// burstRound: more nested checks in flight at the same moment than any fixed
// pool of workers, slots or connections could hold (N = 320). Every request is
// parked at its first storage call until all N have arrived (or 3 s have
// passed), then all are released; storage calls are serialised so that the
// database is not the bottleneck. Each request must return, within burstGrace,
// the answer it returns alone.
const burstN = 320
const burstGrace = 20 * time.Second

func burstRound(t *testing.T, in *concIn, round int, S []int, out *ndWriter) {
	reg := newRegistry(t, regOpts{opl: in.Def.Cfg.opl(), gdepth: 8})
	var stored []*ketoapi.RelationTuple
	for _, i := range S {
		stored = append(stored, in.Def.U[i-1].api())
	}
	writeOrderedRaw(t, reg, stored)
	deps, _ := newEngineDeps(reg)
	eng := check.NewEngine(deps)
	its := make([]*relationtuple.RelationTuple, burstN)
	alone := make([]byte, burstN)
	for i := range its {
		its[i] = internalTuple(t, reg, in.Queries[(i+round)%len(in.Queries)].api())
		ctx, cancel := context.WithCancel(context.Background())
		alone[i] = memCode(eng.CheckRelationTuple(ctx, its[i], 0))
		cancel()
	}
	waitNoKetoGoroutines(2e9)
	var arrived int32
	allHere := make(chan struct{})
	var once sync.Once
	db := make(chan struct{}, 1)
	results := make([]byte, burstN)
	var wg sync.WaitGroup
	for i := range its {
		wg.Add(1)
		go func(i int) {
			defer wg.Done()
			rs := &runState{}
			rs.pre = func(k int) {
				if k == 1 {
					if atomic.AddInt32(&arrived, 1) == burstN {
						once.Do(func() { close(allHere) })
					}
					select {
					case <-allHere:
					case <-time.After(3 * time.Second):
						once.Do(func() { close(allHere) })
					}
				}
				db <- struct{}{}
			}
			rs.obs = func(string, any, any, error) { <-db }
			ctx, cancel := context.WithTimeout(withRunState(context.Background(), rs), burstGrace)
			defer cancel()
			r := eng.CheckRelationTuple(ctx, its[i], 0)
			results[i] = memCode(r)
			if ctx.Err() != nil {
				results[i] = 'H'
			}
		}(i)
	}
	wg.Wait()
	bad, hung := 0, 0
	var first map[string]any
	for i := range its {
		if results[i] != alone[i] {
			bad++
			if results[i] == 'H' {
				hung++
			}
			if first == nil {
				first = map[string]any{"query": in.Queries[(i+round)%len(in.Queries)].api().String(), "alone": string(alone[i]), "in_the_burst": string(results[i])}
			}
		}
	}
	waitNoKetoGoroutines(2e9)
	out.write(map[string]any{"burst_round": round, "requests": burstN, "different": bad, "not_returned_in_20s": hung, "first": first})
}

// mixedRound: reads and writes released together against a registry that has
// served nothing yet. Nothing is compared (the data changes); the round exists
// for the race detector and for crashes.
func mixedRound(t *testing.T, in *concIn, round int, S []int, out *ndWriter) {
	reg := newRegistry(t, regOpts{opl: in.Def.Cfg.opl(), gdepth: 8})
	var stored []*ketoapi.RelationTuple
	for _, i := range S {
		stored = append(stored, in.Def.U[i-1].api())
	}
	writeOrderedRaw(t, reg, stored)
	e := envFor(t, reg)
	reads := []string{"rest_check", "rest_batch", "rest_expand", "rest_list", "grpc_check", "grpc_list"}
	writes := []string{"rest_put", "grpc_transact", "rest_patch", "rest_delete"}
	var reqs []concReq
	for i := 0; i < in.Par; i++ {
		if i%3 == 0 {
			reqs = append(reqs, concReq{kind: writes[(i/3+round)%len(writes)], q: in.Def.U[(i+round)%len(in.Def.U)].api()})
		} else {
			reqs = append(reqs, concReq{kind: reads[(i+round)%len(reads)], q: in.Queries[(i*7+round)%len(in.Queries)].api()})
		}
	}
	var wg sync.WaitGroup
	start := make(chan struct{})
	for i := range reqs {
		wg.Add(1)
		go func(i int) {
			defer wg.Done()
			<-start
			e.concDo(reqs[i])
		}(i)
	}
	close(start)
	wg.Wait()
	waitNoKetoGoroutines(2e9)
	out.write(map[string]any{"mixed": round, "requests": len(reqs)})
}

func trunc(s string, n int) string {
	if len(s) > n {
		return s[:n] + "..."
	}
	return s
}
