----------------------------- MODULE StoreImpl -----------------------------
(***************************************************************************)
(* How the SQL persister carries out a multi-relationship write            *)
(* (internal/persistence/sql/relationtuples.go): one transaction,          *)
(*    BEGIN; [name-mapping INSERT;] INSERT chunk (<= CI rows) ...;          *)
(*    DELETE chunk (<= CD predicates, all copies) ...; COMMIT               *)
(* Any statement may fail (then ROLLBACK), the process may crash before    *)
(* any statement (then the database keeps what was committed), and readers *)
(* run between statements on other connections and see committed data only.*)
(*                                                                         *)
(* The request is a pair of sequences (ins, del) over a small universe of  *)
(* relationship ids; an element may be "bad" (no subject / unknown         *)
(* namespace): validation of a chunk happens when its statement is built.  *)
(***************************************************************************)
EXTENDS Integers, Sequences, FiniteSets, TLC, Bags

CONSTANTS Rels,       \* relationship ids
          CI, CD,     \* chunk sizes
          MaxIns, MaxDel,
          WithMapping \* the handlers first insert name mappings inside the same transaction
Bad == "bad"
Elems == Rels \cup {Bad}

VARIABLES committed,  \* bag: what every other connection sees
          work,       \* bag: the transaction's view
          req,        \* [ins, del] the request being executed
          pc,         \* <<"idle",0>> <<"begun",0>> <<"ins",i>> <<"del",i>> <<"commit",0>> <<"rollback",0>> <<"done",0>>
          outcome,    \* "none" | "ok" | "error" | "crashed"
          before,     \* committed state when the request started
          failed,     \* a statement was made to fail (at most one fault per request)
          seen        \* set of bags a concurrent reader observed
vars == <<committed, work, req, pc, outcome, before, failed, seen>>

SeqsUpTo(S, n) == UNION {[1..k -> S] : k \in 0..n}
RemoveAll(b, S) == [t \in (DOMAIN b) \ S |-> b[t]]
RECURSIVE AddAll(_, _)
AddAll(b, ts) == IF ts = <<>> THEN b ELSE AddAll(b (+) SetToBag({Head(ts)}), Tail(ts))
SeqToSet(s) == {s[i] : i \in 1..Len(s)}
Chunk(s, i, n) == SubSeq(s, (i - 1) * n + 1, IF i * n < Len(s) THEN i * n ELSE Len(s))
NChunks(s, n) == (Len(s) + n - 1) \div n
HasBad(s) == \E i \in 1..Len(s) : s[i] = Bad

\* what the request means when it succeeds
After(b, r) == RemoveAll(AddAll(b, r.ins), SeqToSet(r.del))

Init ==
  /\ committed \in {EmptyBag} \cup {SetToBag({r}) : r \in Rels} \cup {SetToBag(Rels)}
  /\ work = EmptyBag /\ req = [ins |-> <<>>, del |-> <<>>] /\ pc = <<"idle", 0>> /\ outcome = "none"
  /\ before = EmptyBag /\ failed = FALSE /\ seen = {}

Start ==
  /\ pc = <<"idle", 0>> /\ outcome = "none"
  /\ \E i \in SeqsUpTo(Elems, MaxIns), d \in SeqsUpTo(Elems, MaxDel) :
       /\ Len(i) + Len(d) > 0
       /\ req' = [ins |-> i, del |-> d]
  /\ before' = committed /\ work' = committed /\ pc' = <<"begun", 0>>     \* BEGIN
  /\ UNCHANGED <<committed, outcome, failed, seen>>

NextAfterIns(i) == IF i < NChunks(req.ins, CI) THEN <<"ins", i + 1>>
                   ELSE IF Len(req.del) > 0 THEN <<"del", 1>> ELSE <<"commit", 0>>
FirstStmt == IF Len(req.ins) > 0 THEN <<"ins", 1>> ELSE IF Len(req.del) > 0 THEN <<"del", 1>> ELSE <<"commit", 0>>

\* the handlers map names to UUIDs (and validate every tuple) before the first write
Map ==
  /\ pc = <<"begun", 0>>
  /\ IF WithMapping /\ (HasBad(req.ins) \/ HasBad(req.del))
     THEN pc' = <<"rollback", 0>>
     ELSE pc' = FirstStmt
  /\ UNCHANGED <<committed, work, req, outcome, before, failed, seen>>

\* buildInsert validates the chunk (nil subject) and inserts it
StmtInsert ==
  /\ pc \in {<<"ins", i>> : i \in 1..MaxIns}
  /\ LET i == pc[2] c == Chunk(req.ins, i, CI) IN
       IF HasBad(c) THEN pc' = <<"rollback", 0>> /\ work' = work
       ELSE work' = AddAll(work, c) /\ pc' = NextAfterIns(i)
  /\ UNCHANGED <<committed, req, outcome, before, failed, seen>>

StmtDelete ==
  /\ pc \in {<<"del", i>> : i \in 1..MaxDel}
  /\ LET i == pc[2] c == Chunk(req.del, i, CD) IN
       IF HasBad(c) THEN pc' = <<"rollback", 0>> /\ work' = work
       ELSE /\ work' = RemoveAll(work, SeqToSet(c))
            /\ pc' = IF i < NChunks(req.del, CD) THEN <<"del", i + 1>> ELSE <<"commit", 0>>
  /\ UNCHANGED <<committed, req, outcome, before, failed, seen>>

Commit ==
  /\ pc = <<"commit", 0>>
  /\ committed' = work /\ pc' = <<"done", 0>> /\ outcome' = "ok"
  /\ UNCHANGED <<work, req, before, failed, seen>>

Rollback ==
  /\ pc = <<"rollback", 0>>
  /\ work' = committed /\ pc' = <<"done", 0>> /\ outcome' = "error"
  /\ UNCHANGED <<committed, req, before, failed, seen>>

\* a storage error on the statement about to run (any of them, COMMIT included)
Fault ==
  /\ ~failed /\ pc[1] \notin {"idle", "done", "rollback"}
  /\ failed' = TRUE /\ pc' = <<"rollback", 0>>
  /\ UNCHANGED <<committed, work, req, outcome, before, seen>>

\* the process dies; the database keeps the committed state
Crash ==
  /\ pc[1] \notin {"idle", "done"}
  /\ work' = committed /\ pc' = <<"done", 0>> /\ outcome' = "crashed"
  /\ UNCHANGED <<committed, req, before, failed, seen>>

\* a reader on another connection, at any moment
Read ==
  /\ seen' = seen \cup {committed}
  /\ UNCHANGED <<committed, work, req, pc, outcome, before, failed>>

Next == Start \/ Map \/ StmtInsert \/ StmtDelete \/ Commit \/ Rollback \/ Fault \/ Crash \/ Read
Spec == Init /\ [][Next]_vars

(****************************** properties ******************************)
\* all or nothing, at every instant, for every observer
Atomic == pc # <<"idle", 0>> => committed \in {before, After(before, req)}
\* an error (or a crash before COMMIT) leaves exactly the state before
ErrorMeansUnchanged == (pc = <<"done", 0>> /\ outcome \in {"error", "crashed"}) => committed = before
\* success means the full effect
OkMeansApplied == (pc = <<"done", 0>> /\ outcome = "ok") => committed = After(before, req)
\* a request with an invalid element anywhere never succeeds
BadNeverApplied == (pc = <<"done", 0>> /\ (HasBad(req.ins) \/ HasBad(req.del))) => outcome # "ok"
\* a concurrent reader never sees a partially applied request
ReaderOnlyTwoStates == pc # <<"idle", 0>> => seen \subseteq {before, After(before, req)}
=============================================================================
