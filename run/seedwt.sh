#!/bin/bash
# development aid: runs quick checks against a confirmed seeded change in a scratch worktree of /repo (not in /repo itself), so that
# several seeds can be tried at the same time. usage: run/seedwt.sh <name under seeded/> <ID> [<ID> ...]   (appends to /tmp/seedwt.log)
name=$1; shift
cd "$(dirname "$0")/.."
wt=/tmp/wt/run_$name
git -C /repo worktree remove --force $wt >/dev/null 2>&1
git -C /repo worktree add --detach $wt HEAD >/dev/null 2>&1 || { echo "$name: cannot create worktree" >> /tmp/seedwt.log; exit 2; }
git -C $wt apply /verif/seeded/$name/patch.diff || { echo "$name: patch does not apply" >> /tmp/seedwt.log; git -C /repo worktree remove --force $wt; exit 2; }
for id in "$@"; do
  s=$(date +%s)
  out=$(VERIF_REPO=$wt python3 run/check.py $id --tier quick 2>/tmp/seedwt_${name}_$id.err); rc=$?
  echo "$name $id rc=$rc $(( $(date +%s) - s ))s $(echo "$out" | grep -E 'violation:|VIOLATION' | head -2 | tr '\n' ' ' | cut -c1-240)" >> /tmp/seedwt.log
done
git -C /repo worktree remove --force $wt
