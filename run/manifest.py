#!/usr/bin/env python3
"""regenerates MANIFEST.json from the table below (single source for the interface file)"""
import json, os
VERIF = os.path.dirname(os.path.dirname(os.path.abspath(__file__)))
ALL = ["C%02d" % i for i in range(1, 20)]

CHECKS = {
 "C01": dict(
   text="TLC enumerates configurations x stored subsets x storage orders x queries x widths x depths of CheckCases.tla, checks on the model that the engine design equals RefSem when limits are not binding (and that RefSem agrees with an independent stratified fixpoint), and every enumerated case is replayed on the real engine (sqlite, real parser, real SQL) undisturbed and under seeded delay schedules; the answer must equal RefSem whenever the spec says the limits are not binding. Traverse.tla specifies the storage layer's paging loop below the engine (rows up to the first found one, each once, in order); nodes with 0..2001 subject sets are replayed on the real traverser and engine.",
   note="Bounded: seven configuration families (one built around the check-wide visited set against storage order) with universes of 7-10 tuples (all subsets in the thorough tier, a seeded sample in the quick tier), depths 1..8, widths {1,2,3,100}; schedules are perturbed, not enumerated; sqlite only.",
   technique="TLA+ model checking (TLC) + spec-generated cases replayed on the real engine", ref="4/C01"),
 "C02": dict(
   text="On the model (TLC over CheckCases.tla): the three-valued engine never answers allowed where RefSem denies, at any depth or width. On the real engine: every enumerated case at every depth 1..Dmax and width, plus out-of-range request depths and a second server with a lower global depth; allowed must imply RefSem allowed, and (r, g) must answer as (eff(r, g)) does; the same queries sent as one batch through the engine, gRPC and REST batch check at in-range and out-of-range request depths must answer entry by entry like the single check. The recorded fail-open finding (unknown collapses below a negation) is matched by exact agreement with the as-is model.",
   note="Same bounds as C01. Attribution of the known finding needs the as-is engine model to be exact; model drift is counted in the evidence.",
   technique="TLA+ model checking (TLC) + spec-generated cases replayed on the real engine", ref="4/C02"),
 "C03": dict(
   text="Spec-generated cases are replayed with the k-th storage call of the check failing, for every k in 1..N+1 (N counted on the fault-free run), transiently, persistently and with context.Canceled, through the engine and through engine/gRPC/REST batch check; the result must be an error or the fault-free answer, never allowed when the fault-free answer is denied, never allowed together with an error. Traverse.tla's FaultClosed (a failing page statement gives an error or the complete result, never a prefix) is checked on the model, and on nodes with 1001..3001 subject sets every SQL statement of the real check is made to fail once.",
   note="Faults are injected at the Manager/Traverser interface (EngineDependencies), and inside the SQL driver for the wide-node cases; a seeded sample of stored subsets per family in both tiers.",
   technique="TLC-generated cases + exhaustive fault-position enumeration on the real engine", ref="4/C03"),
 "C15": dict(
   text="Checkgroup.tla models the channel protocol of the concurrent checkgroup statement by statement; TLC checks all interleavings for at-most-one-in-flight, result soundness, and under fairness plus eventual context release that every goroutine exits. On the real engine, spec-generated cases are run with the context cancelled before the call and at the gate before every storage call, and with every storage call failing: the call must return, the storage calls must stay within the spec's exhaustive-evaluation bound, and after release no goroutine of the check may remain (goroutine dumps). The same cancellation is sent through the REST, gRPC and gRPC batch handlers with storage that returns at once when its context is done and after 4 s otherwise: the request must return within 2 s. Checkgroup event logs recorded through hook H2 are validated by TraceCheckgroup.tla.",
   note="Checkgroup.tla: up to 4 adds, one caller. 'Returns' uses a 10 s grace period; goroutine accounting polls dumps for up to 5 s.",
   technique="TLA+ model checking of the checkgroup protocol (safety + liveness) + cancellation/fault-position enumeration on the real engine and API handlers + trace validation of checkgroup event logs", ref="4/C15"),
 "C04": dict(
   text="Store.tla specifies the store as a per-network multiset with one action per API operation; TLC checks its action properties exhaustively on a small universe (create adds one copy, delete-by-query removes all and only matches, transact is insert-then-delete all-or-nothing, errors change nothing, list = matching sub-bag) and generates API histories with the expected reply and full multiset after every step; the harness executes them alternately over REST and gRPC (adversarial concrete strings, pagination size 2) and the runner compares replies and stored multisets exactly. Keto.tla composes the store with an in-flight check at the grain of its storage reads: TLC checks exhaustively what a check that overlaps writes may answer (exact when quiet, one-sided under insert-only / delete-only overlap) and emits every write schedule; each is replayed on the real engine behind a reader/writer gate and the recorded reads, writes and answers are validated by TraceKeto.tla.",
   note="Histories of 30-40 operations over a universe of 126 writable tuples (three configured namespaces, one with a rewrite) incl. unknown namespaces and missing subjects; sqlite only; check replies use configuration-free namespaces.",
   technique="TLA+ model checking (TLC) + TLC-generated histories replayed over REST/gRPC + trace validation (TraceKeto.tla) of checks overlapping writes", ref="4/C04"),
 "C06": dict(
   text="Store.tla's Isolation action property is checked exhaustively; the generated histories run over two networks on one database connection (network id from the request context), with a third network seeded by raw SQL with rows carrying network A's UUIDs, so that any statement missing its nid predicate changes an observable; after every step every network is listed and counted and must equal the model. One configured namespace declares a relation through a computed-subject-set rewrite, so that the generated checks also exercise the rewrite traversal of the storage layer in every network.",
   note="Networks are selected through a context-driven Contextualizer on one registry (overlay-added test option); sqlite only.",
   technique="TLA+ model checking (TLC) + TLC-generated histories replayed on two networks sharing a database", ref="4/C06"),
 "C17": dict(
   text="Store.tla's ReadOnlyUnchanged action property is checked exhaustively; on the real server a byte-level dump of both tables is compared around every read step of generated histories and around 25 read/syntax requests (never-seen names over every check transport, batch checks of 5, 6 and 10 valid never-seen relationships, expand, list, namespaces, syntax check, and write methods sent to the read and syntax routers) after every step.",
   note="sqlite only; the dump covers keto_relation_tuples and keto_uuid_mappings.",
   technique="TLA+ model checking (TLC) + dump comparison around spec-generated read requests", ref="4/C17"),
 "C07": dict(
   text="Pager.tla models keyset pagination (matching rows with id > token, ascending, LIMIT n+1, drop the extra row) with writers inserting rows at arbitrary storage positions and deleting rows between fetches; TLC checks exhaustively that pages are bounded, ascending, duplicate-free, that rows present for the whole iteration come back exactly once, that the concatenation is exact without writers and that the token is empty iff no further row existed. TLC-generated behaviours are replayed page by page on the real persister over REST, gRPC and the Manager (8 query shapes, storage positions imposed through shard_id) and every page and token must equal the model's; size tables around the 1/n/100/101/201 boundaries and malformed tokens are checked too.",
   note="Exhaustive: 5-6 row ids, page sizes 1..3, 2-3 writer steps. sqlite only; positions are imposed by rewriting shard_id.",
   technique="TLA+ model checking (TLC) + TLC-generated behaviours replayed page by page", ref="4/C07"),
 "C05": dict(
   text="StoreImpl.tla models a multi-relationship write as the code does it (BEGIN, optional name-mapping insert, chunked INSERTs, chunked DELETEs, COMMIT) with a fault before any statement, a crash before any statement and a reader between any two statements; TLC checks exhaustively that the committed state is always the state before or the full effect, equals the state before after an error or crash, and that readers only ever see those two states. On the real code a wrapping database/sql driver logs every statement, fails the k-th statement for every k of the fault-free log, and kills a child process before the k-th statement on a file database; request shapes span the real chunk sizes (3000/100) with invalid elements at chosen positions over Manager, REST PATCH and gRPC Transact; the store must equal the state before. Every recorded statement log is validated by TLC against TraceTx.tla (one transaction per request, chunk sizes, inserts before deletes, nothing after a failure but ROLLBACK). Readers list while a writer toggles two states.",
   note="sqlite only (in-memory for faults, file-backed for crash points); lock errors of concurrent readers are not observations; StoreImpl.tla uses chunk sizes 2/1 and <= 3 inserts, <= 3 deletes.",
   technique="TLA+ model checking (TLC) + statement-level fault and crash-point enumeration + TLC trace validation of SQL statement logs", ref="4/C05"),
 "C09": dict(
   text="Expand.tla transcribes buildTreeRecursive (depth-first, storage order, one visited set tested before the depth test, nil child becomes a leaf) and defines the tree properties as operators; TLC evaluates every subset of a 10-tuple universe (chain, diamond, cycles, self-loop, duplicate) x storage orders x depths, checks that the code's design is sound, depth-bounded and expands once, and that a depth-aware visited set would also be complete. Every enumerated case is replayed on the real engine, REST and gRPC with the storage order imposed; the real tree must have only stored edges, expand each set once, respect max-depth, contain only reachable subjects and every subject reachable within the depth; transports must agree with the engine; leaves must equal check decisions when the depth is not binding; nodes with 99..201 children cross the page size.",
   note="The recorded finding (a set first reached at exhausted depth is skipped later) is attributed only when the real tree equals the as-is model tree exactly and the model says the case is incomplete. sqlite only.",
   technique="TLA+ model checking (TLC) + spec-enumerated cases replayed on engine/REST/gRPC", ref="4/C09"),
 "C08": dict(
   text="Api.tla specifies how one engine decision is reported by each check transport (status mirroring, always-200, gRPC codes, batch entries) and that a batch is the position-wise map of single checks; TLC checks the mapping's invariants (all transports agree, unknown namespace never allowed, 200 iff allowed / 403 iff denied, never allowed with an error) and, for every batch composition up to a length and every classification/decision assignment, that batch = single position by position. The enumerated batches and 8 tuple kinds are sent over REST GET/POST (mirror and openapi), gRPC Check (both field styles), engine/REST/gRPC batch on 8 stored states and several max-depth values; every reply must be the Api.tla mapping of the engine's own decision.",
   note="Configuration family 'rw' of CheckCases.tla; batch limit configured to 10; sqlite only.",
   technique="TLA+ model checking (TLC) + TLC-enumerated requests replayed on every transport", ref="4/C08"),
 "C13": dict(
   text="ApiReq.tla defines the request space of all 19 REST and gRPC endpoints as a product of per-field variants (absent, null, wrong type, empty, separator-laden, huge, negative, unknown namespace, incomplete / double / absent subjects, body and batch shapes, arbitrary OPL bytes, wrong method/route) and the predicate every reply must satisfy (handler returns, process lives, no 5xx / Internal, state unchanged on errors and on reads). TLC draws the requests; the harness sends each to the real routers and handler methods with a byte-level dump around it; a shard that dies is restarted without the request that was in flight, which is reported.",
   note="A seeded sample of each endpoint's product (60 / 600 per endpoint) plus fixed corner requests; gRPC handler methods are called directly (no interceptor chain); messages are kept wire-well-formed (no nil elements in repeated fields).",
   technique="TLC-generated request space replayed on the real handlers with crash detection", ref="4/C13"),
 "C10": dict(
   text="OplGrammar.tla generates permission expressions as abstract syntax (so their TypeScript meaning, the truth table TT, is fixed by construction) and prints them with TypeScript's minimal parentheses in every spelling variant the language allows (dot/bracket access, T[] / Array<T> / parenthesised unions, optional annotations, quoted names, separators, trailing commas, comments, redundant parentheses, !!). Every program goes through the real parser: it must be accepted, yield the declared relations, and the rewrite it builds must have the truth table of the TypeScript expression (evaluated on the parsed AST, and for a sample by a real server configured with the program).",
   note="Expressions over three leaves, nesting depth 2 exhaustively (thorough) and depth 3 sampled; one namespace layout; tuple-to-subject-set bodies are covered by the check-engine families, not here.",
   technique="TLC-generated programs with spec-computed truth tables replayed through the real parser and engine", ref="4/C10"),
 "C12": dict(
   text="OplLex.tla is the lexer as an automaton over character classes with the totality argument (every state function consumes a character or ends the scan: at most |input|+1 items, one final EOF/Error item, ordered in-range positions), checked by TLC on every string up to length 3 over a 30-symbol alphabet plus random longer ones; each string is lexed by the real lexer and the items with byte offsets must equal the model's. The parser is run on the same strings, on token deletions/duplications/swaps of a valid program, unterminated comments/strings and truncations at every position, nesting 1..10^4, a 0.5 MB input and random byte strings with invalid UTF-8: no panic, every error renders (Error, ToAPI, ToProto) with 1 <= start.line <= end.line <= lines+1, and the REST and gRPC syntax endpoints report the same errors.",
   note="'Time linear in the input' is not decided by this technique: only a 10 s per-input sanity bound (exit 2). Lexer-model keywords: {ctx}.",
   technique="TLA+ model checking of a lexer automaton + model-vs-implementation item comparison + grammar-directed near-miss replay", ref="4/C12"),
 "C11": dict(
   text="OplTypes.tla models the deferred type checks as written (Accepted) and the relation lookups the engine performs at run time (RuntimeOK) over a space of programs (type of the traversed relation, type of the group relation, which namespaces declare the permission, five permission bodies, seven single-reference mutations); TLC shows that type rules which look the computed relation up where the engine evaluates it are sound. Every enumerated program goes through the real parser: mutants must be rejected with an error whose source span is the offending token; accepted programs are loaded into a real server, relationships conforming to the declared types are written and every declared relation is checked for two subjects on five objects: no schema error may occur.",
   note="The recorded finding (traverse over a SubjectSet<T,R> type) is attributed only for programs whose RuntimeOK the spec evaluates to FALSE. One program layout (three namespaces).",
   technique="TLC-enumerated programs with spec-computed acceptance/run-time predicates replayed through parser and engine", ref="4/C11"),
 "C16": dict(
   text="NameMap.tla models how names become UUIDs and back: FromTuple's collect / map / assign-by-position, and the read path's de-duplication, lookup in pages of at most MP and scatter to every asking position; TLC checks for every batch up to a length over three symbols that the round trip is the identity position by position, that every distinct id is looked up exactly once and that no page exceeds MP. Every batch shape is instantiated with nine classes of adversarial strings and sized batches cross the real page of 100 in five repetition patterns; the real Mapper round trip, the determinism/injectivity of the id mapping, write + REST/gRPC read-back and the size of every lookup statement are checked.",
   note="sqlite only; UUIDv5 collisions are assumed away.",
   technique="TLA+ model checking (TLC) + spec-enumerated batch shapes replayed through mapper, manager and read APIs", ref="4/C16"),
 "C18": dict(
   text="Codec.tla specifies the human-readable form as an automaton over character sequences (cut on the first ':', '#', '@', strip the optional bracket pair, subject set iff the subject contains ':') with the documented domain Dom_string; TLC checks on every text up to a length that parsing fails or the printed form of the result re-parses to the same value, and on 22 000 structured values that the round trip is the identity on Dom_string. Every text is parsed by the real FromString and compared with the automaton (result and re-parse); every value goes through String/FromString, JSON, URL query and protobuf (as a relationship and as a query with every subset of fields).",
   note="For JSON / URL query / protobuf the specification is only the identity law over the enumerated value space; the string form is the part with a real model. Alphabet {a, b, :, #, @, (, )}, texts up to length 5 (quick) / 6 (thorough).",
   technique="TLA+ model checking of the string-form automaton + exhaustive model-vs-implementation comparison", ref="4/C18"),
 "C19": dict(
   text="Reload.tla models writer, file watcher (reads the content a file has when it looks, writes coalesce) and the two managers (OPL: all files re-parsed, all or nothing; legacy: per-file last good); TLC checks over all interleavings that what is served for a file is always one valid version of it written so far, that a file shows nothing only before a valid version was loaded or after the manager was told it is gone, and that once writing stops the last versions are served; with OneShotReader = TRUE it reproduces the recorded defect. Write/remove sequences (valid, syntactically invalid, type-incorrect; OPL single file and directory; legacy JSON/YAML/TOML) are executed with atomic renames against the real fsnotify watchers while a sampler reads Namespaces() every 150 us; the totally ordered log of writes started and observations is validated by TLC against TraceReload.tla.",
   note="Assumes fsnotify reports an atomic rename; final state awaited up to 15 s; two files, up to 8 steps per sequence.",
   technique="TLA+ model checking (TLC) + TLC trace validation of recorded watcher executions", ref="4/C19"),
 "C14": dict(
   text="LazyInit.tla models the registry's create-on-first-use getters as access events with happens-before from the mutex only; TLC checks that the synchronised getter is race free and returns one instance to every caller, and that the unsynchronised one is not (a regression test of the model). Request-private state is part of Checkgroup.tla / KetoCheck.tla (one visited set and one result slot per request). On the real code, rounds of requests (check, batch check, expand, list over REST and gRPC) are released by a barrier against a registry that has served nothing yet, in a binary built with -race: every reply must equal the reply of the same request run alone, the multiset of visited sets recorded through hook H1 must equal that of the alone runs, and any race report is a violation. Every second round is followed by a round in which a third of the requests are writes (race detector and crashes only); every third round has half of its clients give up part-way through their request, next to and followed by requests that run to completion, all compared with answers computed before any request was abandoned (on one, two and all processors, and again in a binary without the race detector).",
   note="Data-race freedom is observed with Go's race detector on the generated workload; it is not derived from the TLA+ model. 16-48 requests per round.",
   technique="TLA+ model checking (TLC) of the lazy-initialisation protocol + concurrent-vs-alone replay under the race detector", ref="4/C14"),
}
NOT_YET = "check not built yet in this session (work in progress, see DESIGN.md section 12)"

def main():
    m = {
      "version": 1,
      "setup_cmd": "python3 run/setup.py",
      "hooks": {"guard": "verif", "enable": "go test -c -tags sqlite,verif -overlay <overlay.json> ./internal/zzverif/ (see run/lib.py build_harness)",
                "baseline_off_cmd": "bash run/baseline_off.sh", "source_commits": [], "add_only": True},
      "engines": [{"name": "tlc+harness", "path": "run/check.py", "serves_properties": sorted(CHECKS),
                   "kind_free_text": "TLA+ specifications under spec/ checked with TLC; spec-generated cases and behaviours replayed on, and recorded traces validated against, the real code through a Go harness compiled into /repo's working tree"}],
      "checks": [], "not_applicable": [],
      "notes": "All checks: python3 run/check.py <ID> --tier quick|thorough. Exit 0 held, 1 violation, 2 inconclusive.",
    }
    hooks_file = os.path.join(VERIF, "run", "hooks.json")
    if os.path.exists(hooks_file):
        m["hooks"]["source_commits"] = json.load(open(hooks_file))
    for pid in ALL:
        if pid in CHECKS:
            c = CHECKS[pid]
            m["checks"].append({
              "property_id": pid, "quick_cmd": "python3 run/check.py %s --tier quick" % pid,
              "thorough_cmd": "python3 run/check.py %s --tier thorough" % pid,
              "evidence_file": "evidence/%s.json" % pid,
              "replay_cmd_template": "python3 run/check.py %s --replay {path}" % pid,
              "engine": "tlc+harness",
              "level_claimed": {"category": "model_checking", "text": c["text"], "design_ref": c["ref"]},
              "level_note": c["note"], "technique": c["technique"]})
        else:
            m["not_applicable"].append({"property_id": pid, "reason": NOT_YET})
    json.dump(m, open(os.path.join(VERIF, "MANIFEST.json"), "w"), indent=1)

if __name__ == "__main__":
    main()
