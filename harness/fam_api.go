package zzverif

import (
	"context"
	"encoding/json"
	"fmt"
	"net/http"
	"testing"

	"github.com/gofrs/uuid"
	"google.golang.org/grpc/status"

	"github.com/ory/keto/internal/check"
	"github.com/ory/keto/internal/check/checkgroup"
	"github.com/ory/keto/internal/driver"
	"github.com/ory/keto/ketoapi"
	rts "github.com/ory/keto/proto/ory/keto/relation_tuples/v1alpha2"
)

// C08: every check transport against the engine, and batches against singles.

type apiIn struct {
	Def     *famDef  `json:"def"`
	States  [][]int  `json:"states"`  // stored subsets (indices into def.U)
	Queries []jtuple `json:"queries"` // subject ["none"] = no subject
	Depths  []int    `json:"depths"`
	GDepth  int      `json:"gdepth"`  // limit.max_read_depth of the server (default 8)
	Batches [][]int  `json:"batches"` // 1-based indices into queries
	MaxB    int      `json:"maxbatch"`
}

type apiReply struct {
	Status  string `json:"status"`
	Allowed bool   `json:"allowed"`
	Error   bool   `json:"error"`
	Panic   string `json:"panic,omitempty"`
}

func guard(f func() apiReply) (r apiReply) {
	defer func() {
		if p := recover(); p != nil {
			r = apiReply{Status: "panic", Panic: fmt.Sprint(p)}
		}
	}()
	return f()
}

func apiTuple(t jtuple) *ketoapi.RelationTuple { return t.api() }

func protoOf(rt *ketoapi.RelationTuple) *rts.RelationTuple {
	if rt.SubjectID == nil && rt.SubjectSet == nil {
		return &rts.RelationTuple{Namespace: rt.Namespace, Object: rt.Object, Relation: rt.Relation}
	}
	return rt.ToProto()
}

func init() { families["api"] = famAPI }

func famAPI(t *testing.T) {
	var in apiIn
	readJSON(*fIn, &in)
	out := newNDWriter(*fOut)
	defer out.close()
	si, sn := shard()
	if in.GDepth == 0 {
		in.GDepth = 8
	}
	reg := newRegistry(t, regOpts{opl: in.Def.Cfg.opl(), gdepth: in.GDepth})
	// the batch size limit is configuration
	if err := reg.Config(context.Background()).Set("limit.max_batch_check_size", in.MaxB); err != nil {
		t.Fatal(err)
	}
	e := &storeEnv{t: t, reg: reg, nids: map[string]uuid.UUID{}, sym: newSymtab(1)}
	ctx := context.Background()
	e.rr = reg.ReadRouter(ctx)
	e.ch = check.NewHandler(reg)
	e.nids["A"] = reg.NetworkID(ctx)
	for sti, S := range in.States {
		if sti%sn != si {
			continue
		}
		resetTuples(t, reg)
		var stored []*ketoapi.RelationTuple
		for _, i := range S {
			stored = append(stored, in.Def.U[i-1].api())
		}
		writeOrdered(t, reg, stored)
		for _, d := range in.Depths {
			res := map[string]any{"state": sti, "depth": d}
			// the engine's own decision per query
			eng := make([]apiReply, len(in.Queries))
			for qi, q := range in.Queries {
				rt := apiTuple(q)
				eng[qi] = guard(func() apiReply {
					it, err := reg.ReadOnlyMapper().FromTuple(ctx, rt)
					if err != nil {
						return apiReply{Status: "maperr", Error: true}
					}
					cctx, cancel := context.WithCancel(ctx)
					defer cancel()
					r := reg.PermissionEngine().CheckRelationTuple(cctx, it[0], d)
					return apiReply{Status: "engine", Allowed: r.Membership == checkgroup.IsMember && r.Err == nil, Error: r.Err != nil}
				})
			}
			res["engine"] = eng
			singles := map[string][]apiReply{}
			for qi, q := range in.Queries {
				rt := apiTuple(q)
				qs := rt.ToURLQuery()
				if rt.SubjectID == nil && rt.SubjectSet == nil {
					qs.Del("subject_id")
				}
				qs.Set("max-depth", fmt.Sprint(d))
				body, _ := json.Marshal(rt)
				rest := func(method, path string, b []byte) apiReply {
					return guard(func() apiReply {
						code, rb := e.do("A", e.rr, method, path, b)
						var resp struct {
							Allowed bool `json:"allowed"`
						}
						json.Unmarshal(rb, &resp)
						return apiReply{Status: fmt.Sprint(code), Allowed: resp.Allowed, Error: code >= 400 && code != http.StatusForbidden}
					})
				}
				singles["rest_get_mirror"] = append(singles["rest_get_mirror"], rest("GET", "/relation-tuples/check?"+qs.Encode(), nil))
				singles["rest_get_openapi"] = append(singles["rest_get_openapi"], rest("GET", "/relation-tuples/check/openapi?"+qs.Encode(), nil))
				singles["rest_post_mirror"] = append(singles["rest_post_mirror"], rest("POST", fmt.Sprintf("/relation-tuples/check?max-depth=%d", d), body))
				singles["rest_post_openapi"] = append(singles["rest_post_openapi"], rest("POST", fmt.Sprintf("/relation-tuples/check/openapi?max-depth=%d", d), body))
				singles["grpc_check"] = append(singles["grpc_check"], guard(func() apiReply {
					var req *rts.CheckRequest
					if qi%2 == 0 {
						req = &rts.CheckRequest{Tuple: protoOf(rt), MaxDepth: int32(d)}
					} else { // deprecated flat fields
						p := protoOf(rt)
						req = &rts.CheckRequest{Namespace: p.Namespace, Object: p.Object, Relation: p.Relation, Subject: p.Subject, MaxDepth: int32(d)}
					}
					resp, err := e.ch.Check(ctx, req)
					if err != nil {
						return apiReply{Status: status.Code(err).String(), Error: true}
					}
					return apiReply{Status: "OK", Allowed: resp.Allowed}
				}))
			}
			res["singles"] = singles
			// batches
			var batches []map[string]any
			for _, b := range in.Batches {
				var ts []*ketoapi.RelationTuple
				for _, qi := range b {
					ts = append(ts, apiTuple(in.Queries[qi-1]))
				}
				br := map[string]any{}
				br["engine_batch"] = batchGuard(func() (string, []apiReply) {
					rs, err := reg.PermissionEngine().BatchCheck(ctx, ts, d)
					if err != nil {
						return "err", nil
					}
					out := make([]apiReply, len(rs))
					for i, r := range rs {
						out[i] = apiReply{Allowed: r.Membership == checkgroup.IsMember, Error: r.Err != nil}
					}
					return "OK", out
				})
				br["grpc_batch"] = batchGuard(func() (string, []apiReply) {
					req := &rts.BatchCheckRequest{MaxDepth: int32(d)}
					for _, x := range ts {
						req.Tuples = append(req.Tuples, protoOf(x))
					}
					resp, err := e.ch.BatchCheck(ctx, req)
					if err != nil {
						return status.Code(err).String(), nil
					}
					out := make([]apiReply, len(resp.Results))
					for i, r := range resp.Results {
						out[i] = apiReply{Allowed: r.Allowed, Error: r.Error != ""}
					}
					return "OK", out
				})
				br["rest_batch"] = batchGuard(func() (string, []apiReply) {
					if ts == nil {
						ts = []*ketoapi.RelationTuple{}
					}
					body, _ := json.Marshal(map[string]any{"tuples": ts})
					code, rb := e.do("A", e.rr, "POST", fmt.Sprintf("/relation-tuples/batch/check?max-depth=%d", d), body)
					if code != 200 {
						return fmt.Sprint(code), nil
					}
					var resp struct {
						Results []struct {
							Allowed bool   `json:"allowed"`
							Error   string `json:"error"`
						} `json:"results"`
					}
					if err := json.Unmarshal(rb, &resp); err != nil {
						return "badjson", nil
					}
					out := make([]apiReply, len(resp.Results))
					for i, r := range resp.Results {
						out[i] = apiReply{Allowed: r.Allowed, Error: r.Error != ""}
					}
					return "OK", out
				})
				batches = append(batches, br)
			}
			res["batches"] = batches
			out.write(res)
		}
	}
	_ = driver.WithLogLevel
}

func batchGuard(f func() (string, []apiReply)) (r map[string]any) {
	defer func() {
		if p := recover(); p != nil {
			r = map[string]any{"status": "panic", "panic": fmt.Sprint(p)}
		}
	}()
	st, rs := f()
	return map[string]any{"status": st, "results": rs}
}
