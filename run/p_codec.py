"""C18: Codec.tla strings and values replayed on package ketoapi"""
import json
import lib
from lib import *


def cat(cs):
    return "".join(cs)


def c18(tier):
    ck = Check("C18", tier)
    binary = build_harness()
    maxlen = 5 if tier == "quick" else 7
    cfg = write_cfg(['Mode = "strings"', "MaxLen = %d" % maxlen, 'TrimMode = "pair"', "Wrap = TRUE"], invariants=["Faithful"])
    rs = tlc("Codec", "s.cfg", files={"s.cfg": cfg}, timeout=2400)
    ck.add_tlc(rs)
    if rs.violation:
        ck.violation("Codec.tla (strings): " + rs.violation, {"tlc": rs.raw_tail[-2000:]})
    cfg = write_cfg(['Mode = "values"', "MaxLen = 0", 'TrimMode = "pair"', "Wrap = TRUE"], invariants=["Faithful"])
    rv = tlc("Codec", "v.cfg", files={"v.cfg": cfg}, timeout=2400)
    ck.add_tlc(rv)
    if rv.violation:
        ck.violation("Codec.tla (values): " + rv.violation, {"tlc": rv.raw_tail[-2000:]})
    strings, values = rs.lines, rv.lines
    inp = {"strings": [l["s"] for l in strings], "values": [l["t"] for l in values]}
    recs = run_harness(binary, "codec", inp)
    for x in recs:
        if "bodies" in x:
            ck.evaluations += x["bodies"]
            ck.extra["post_check_bodies_decoded_in_sequence"] = x["bodies"]
            for b in x.get("bad") or []:
                ck.violation("a JSON request body is not decoded on its own: " + b[:500], {})
    bys = {x["s"]: x for x in recs if "s" in x}
    byv = {x["v"]: x for x in recs if "v" in x}
    for i, l in enumerate(strings):
        ob = bys.get(i)
        if ob is None:
            raise Inconclusive("string %d not replayed" % i)
        ck.evaluations += 1
        s = cat(l["s"])
        cid = {"text": s}
        if ob.get("panic"):
            ck.violation("FromString panicked", dict(cid, panic=ob["panic"][:300]))
            continue
        want = l["r"]
        if want["err"] != bool(ob.get("err")):
            ck.violation("FromString %s the text, the string-form automaton %s it" % (("rejects", "accepts") if ob.get("err") else ("accepts", "rejects")), cid)
            continue
        if want["err"]:
            continue
        ck.nontrivial.add(s)
        t = ob["t"]
        exp = {"ns": cat(want["ns"]), "obj": cat(want["obj"]), "rel": cat(want["rel"]), "kind": want["sub"]["kind"]}
        if want["sub"]["kind"] == "id":
            exp["id"] = cat(want["sub"]["id"])
        else:
            exp.update(sns=cat(want["sub"]["ns"]), sobj=cat(want["sub"]["obj"]), srel=cat(want["sub"]["rel"]))
        if t != exp:
            ck.violation("FromString parses the text differently from the string-form automaton", dict(cid, expected=exp, observed=t))
        elif not ob["reparse_same"]:
            ck.violation("the printed form of the parsed relationship re-parses to a different relationship (silent mis-parse)",
                         dict(cid, parsed=t, printed=ob["restr"]))
    for i, l in enumerate(values):
        ob = byv.get(i)
        if ob is None:
            raise Inconclusive("value %d not replayed" % i)
        ck.evaluations += 1
        cid = {"value": {k: (cat(v) if isinstance(v, list) else {kk: (cat(vv) if isinstance(vv, list) else vv) for kk, vv in v.items()} if isinstance(v, dict) else v) for k, v in l["t"].items() if k != "err"}}
        if ob.get("panic"):
            ck.violation("a codec panicked", dict(cid, panic=ob["panic"][:300]))
            continue
        if ob["str"] != cat(l["str"]):
            ck.violation("String() differs from the automaton's printed form", dict(cid, expected=cat(l["str"]), observed=ob["str"]))
        if l["indom"] and not ob["str_roundtrip"]:
            ck.violation("FromString(String(x)) != x for a relationship of the documented string domain", cid)
        for codec in ("json", "url", "proto", "proto_dp", "query"):
            if not ob[codec]:
                ck.violation("the %s codec does not round-trip" % codec, dict(cid, grpc_handlers=ob.get("query_handler")) if codec == "query" else cid)
        if l["indom"]:
            ck.nontrivial.add(("v", i))
    ck.sample({"text": cat(strings[len(strings) // 3]["s"]), "automaton": strings[len(strings) // 3]["r"]})
    ck.sample({"value": values[7]["t"], "printed": cat(values[7]["str"]), "in_domain": values[7]["indom"]})
    ck.extra["strings"] = len(strings)
    ck.extra["values"] = len(values)
    ck.exhaustive = True
    ck.rule = ("every text over {a, b, :, #, @, (, )} up to length %d parsed by the real FromString and compared with the string-form automaton (result, and re-parse of the printed form); "
               "22 000 structured relationships (fields with separators in every position, subject ids and subject sets) through String/FromString, JSON, URL query and protobuf "
               "(also as queries with every subset of fields present, decoded by the ketoapi functions and by the adapter the gRPC list and delete handlers use); non-trivial: texts that parse, values of the documented domain" % maxlen)
    ck.assumptions = ["for JSON / URL query / protobuf the specification is the identity law over the enumerated value space; only the string form has a model with content"]
    ck.finish()
