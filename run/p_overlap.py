"""Keto.tla: a check that overlaps writes (part of C04): exhaustive model checking, then the model's write schedules
replayed on the real engine with every storage read, write and answer validated by TraceKeto.tla"""
import json, random
import lib
from lib import *

CONST = ['MaxWrites = %d', 'WriteKinds = {"ins", "del"}', 'Emit = %s']


def overlap(ck, binary, tier):
    mw = 2 if tier == "quick" else 3
    cfg = write_cfg([CONST[0] % mw, CONST[1], CONST[2] % "FALSE"], invariants=["TypeOK", "QuietIsExact", "InsertOnly", "DeleteOnly"])
    r = tlc("Keto", "k.cfg", files={"k.cfg": cfg}, want_lines=False, workers=8)
    ck.add_tlc(r)
    if r.violation:
        ck.violation("Keto.tla (exhaustive): " + r.violation, {"tlc": r.raw_tail[-3000:]})
    ck.extra["overlap_model_states"] = r.distinct
    # the documented non-property: with mixed writes the answer may match no store state that existed
    cfg = write_cfg([CONST[0] % 2, CONST[1], CONST[2] % "FALSE"], invariants=["Linearizable"])
    r = tlc("Keto", "k.cfg", files={"k.cfg": cfg}, want_lines=False, workers=8)
    ck.extra["overlap_linearizable_holds_in_model"] = r.violation is None
    # schedules
    cfg = write_cfg([CONST[0] % 2, CONST[1], CONST[2] % "TRUE"])
    r = tlc("Keto", "k.cfg", files={"k.cfg": cfg}, workers=8)
    seen, cases = set(), []
    for h in r.lines:
        key = json.dumps([sorted(h["init"]), h["sched"]])
        if key in seen:
            continue
        seen.add(key)
        cases.append({"init": sorted(h["init"]), "sched": [{"at": w[0], "kind": w[1], "t": w[2]} for w in h["sched"]]})
    if not cases:
        raise Inconclusive("Keto.tla emitted no histories")
    cases.sort(key=lambda c: json.dumps(c))
    rnd = random.Random(seed())
    if tier == "quick":
        quiet = [c for c in cases if not c["sched"]]
        busy = [c for c in cases if c["sched"]]
        cases = quiet + rnd.sample(busy, min(len(busy), 1500))
    for i, c in enumerate(cases):
        c["id"] = i
    recs = {x["id"]: x for x in run_harness(binary, "overlap", {"cases": cases}, shards=8)}
    lines, owner = [], []
    overlapped = 0
    for c in cases:
        ob = recs.get(c["id"])
        if ob is None:
            raise Inconclusive("overlap case %d not executed" % c["id"])
        evs = ob["events"]
        ans = [e for e in evs if e["ev"] == "answer"]
        if not ans or ans[0].get("error"):
            raise Inconclusive("overlap case %d: check returned an error: %s" % (c["id"], ans[0].get("error") if ans else "no answer"))
        seen_answer = False
        for e in evs:
            lines.append(json.dumps(e))
            owner.append(c["id"])
        if any(e["ev"] == "write" for e in evs):
            overlapped += 1
            ck.nontrivial.add(("overlap", c["id"]))
        ck.evaluations += 1
    ok, matched = validate("\n".join(lines) + "\n")
    ck.traces += len(cases)
    ck.extra["overlap_cases"] = len(cases)
    ck.extra["overlap_cases_with_write_during_check"] = overlapped
    ck.extra["overlap_trace_events"] = len(lines)
    if not ok:
        bad = owner[min(matched, len(owner) - 1)]
        c = cases[bad]
        ck.violation("the real check engine, run with writes interleaved as Keto.tla schedules them, did a storage read or gave an answer "
                     "the model does not allow (event %d of the concatenated trace)" % (matched + 1),
                     {"case": c, "events": recs[bad]["events"], "rejected_event": json.loads(lines[min(matched, len(lines) - 1)])})
    if len(ck.samples) < 6:
        busy = [c for c in cases if len(recs[c["id"]]["events"]) > 5 and any(e["ev"] == "write" for e in recs[c["id"]]["events"])]
        if busy:
            ck.sample({"overlap_case": busy[0], "recorded": recs[busy[0]["id"]]["events"]})


def validate(text):
    cfg = ('SPECIFICATION TSpec\nCONSTANTS\n  TraceFile = "k.ndjson"\n  MaxWrites = 0\n  WriteKinds = {}\n  Emit = FALSE\n'
           'INVARIANT QuietIsExact\nINVARIANT InsertOnly\nINVARIANT DeleteOnly\nPOSTCONDITION Accepted\nCHECK_DEADLOCK FALSE\n')
    r = tlc("TraceKeto", "tk.cfg", files={"tk.cfg": cfg, "k.ndjson": text}, workers=1, heap="4g", want_lines=False)
    return r.ok, max(r.depth - 1, 0)


def main(tier):
    ck = Check("C04", tier)
    binary = build_harness()
    overlap(ck, binary, tier)
    ck.finish()
