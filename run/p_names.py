"""C16: NameMap.tla batch shapes instantiated with adversarial strings; sized batches across the lookup page of 100"""
import json
import lib
from lib import *


def c16(tier):
    ck = Check("C16", tier)
    binary = build_harness()
    maxlen = 3 if tier == "quick" else 4
    cfg = write_cfg(['Syms = {"x", "y", "z"}', "MaxLen = %d" % maxlen, "MP = 2"], invariants=["Faithful"])
    r = tlc("NameMap", "n.cfg", files={"n.cfg": cfg})
    ck.add_tlc(r)
    if r.violation:
        ck.violation("NameMap.tla: " + r.violation, {"tlc": r.raw_tail[-2000:]})
    batches = [l["batch"] for l in r.lines]
    if tier == "quick" and len(batches) > 1500:
        import random
        batches = random.Random(seed()).sample(batches, 1500)
    sizes = [1, 2, 49, 50, 51, 99, 100, 101, 199, 200, 201, 250] if tier == "quick" else [1, 2, 49, 50, 51, 99, 100, 101, 149, 150, 151, 199, 200, 201, 250, 401, 1000]
    sized = [{"n": n, "pattern": p} for n in sizes for p in ("distinct", "same", "alternate", "objsub", "mod7")]
    recs = run_harness(binary, "names", {"batches": batches, "sized": sized})
    seenb, seenz = set(), set()
    conc = 0
    for x in recs:
        ck.evaluations += 1
        if "concurrent" in x:
            conc += x["concurrent"]
            for b in x.get("bad") or []:
                ck.violation("a name is mapped differently when other mapping calls are in flight: " + b[:400], {"calls": x["concurrent"]})
            continue
        if "batch" in x:
            seenb.add(x["batch"])
            cid = {"batch_shape": batches[x["batch"]]}
        else:
            seenz.add(x["sized"])
            cid = {"sized": sized[x["sized"]]}
        if x.get("error"):
            ck.violation("batch failed: " + x["error"][:300], cid)
            continue
        for b in x.get("bad") or []:
            ck.violation("names do not survive the mapping: " + b[:300], cid)
        # each distinct id is looked up once, in pages of at most 100
        if x["max_page"] > 100:
            ck.violation("a lookup statement carries %d ids (page size 100)" % x["max_page"], cid)
        if x["n"] >= 2:
            ck.nontrivial.add(json.dumps(cid, sort_keys=True))
        if len(ck.samples) < 3 and x["n"] in (3, 101):
            ck.sample(dict(cid, lookups=x["lookups"], ids_looked_up=x["ids_looked_up"], distinct_names=x.get("distinct_names")))
    if len(seenb) != len(batches) or len(seenz) != len(sized):
        raise Inconclusive("not every batch was replayed")
    if conc == 0:
        raise Inconclusive("the concurrent mapping calls did not run")
    ck.extra["concurrent_mapping_calls"] = conc
    ck.extra["batch_shapes"] = len(batches)
    ck.extra["sized_batches"] = len(sized)
    ck.rule = ("every batch shape of NameMap.tla up to %d relationships over three symbols (repeats, same name as object and subject, subject id vs subject set) instantiated with "
               "eleven classes of adversarial strings (among them different spellings of one UUID, and a name together with the text of the id derived for it); batches of 1..250 (thorough: 1000) relationships in five repetition patterns; Mapper round trip position by position, "
               "determinism/injectivity of the id mapping, write + REST/gRPC read-back, lookup statements <= 100 ids; 8000 mapping calls from 16 goroutines on the shared mappers must map like the same calls made alone; non-trivial: at least two relationships" % maxlen)
    ck.assumptions = ["sqlite only", "UUIDv5 collisions are assumed away"]
    ck.finish()
