package zzverif

import (
	"context"
	"errors"
	"fmt"
	"os"
	"path/filepath"
	"sort"
	"strings"
	"sync"
	"sync/atomic"
	"testing"
	"time"

	"github.com/ory/keto/internal/driver"
	"github.com/ory/keto/internal/driver/config"
)

// C19: write sequences of Reload.tla executed against the real file watchers.

type reloadStep struct {
	F    string `json:"f"`
	Kind string `json:"kind"` // valid | invalid | remove
}

type reloadSeq struct {
	ID      int          `json:"id"`
	Variant string       `json:"variant"` // opl | json | yaml | toml
	Single  bool         `json:"single"`  // the target is one file, not a directory
	Steps   []reloadStep `json:"steps"`
}

type reloadIn struct {
	Seqs []reloadSeq `json:"seqs"`
}

// content of version v of file f; a valid version declares two namespaces so
// that a partial load is visible.
// bigFiller is more than a megabyte of comment lines.
var bigFiller = strings.Repeat("// "+strings.Repeat("x", 96)+"\n", 12000)

func reloadContent(variant, f string, v int, valid bool) string {
	s := reloadContentSmall(variant, f, v, valid)
	if valid && v%3 == 2 {
		// a large version: the second namespace (or the only key) comes after more than a megabyte of comments
		switch variant {
		case "opl":
			i := strings.Index(s, "\n") + 1
			return s[:i] + bigFiller + s[i:]
		case "yaml":
			return strings.ReplaceAll(bigFiller, "//", "#") + s
		}
	}
	return s
}

func reloadContentSmall(variant, f string, v int, valid bool) string {
	a, b := fmt.Sprintf("%s_%d_x", f, v), fmt.Sprintf("%s_%d_y", f, v)
	switch variant {
	case "opl":
		if !valid {
			if v%2 == 0 {
				return fmt.Sprintf("class %s implements Namespace {\n  related: { r: Nowhere[] }\n}\n", a) // type error
			}
			return fmt.Sprintf("class %s implements Namespace {\nclass %s implements", a, b) // syntax error
		}
		return fmt.Sprintf("class %s implements Namespace {}\nclass %s implements Namespace { related: { r: %s[] } }\n", a, b, a)
	case "json":
		if !valid {
			if v%2 == 0 {
				return fmt.Sprintf("{\"name\": %q, \"id\": \"two\"}", a) // well formed, a value of the wrong type
			}
			return "{ this is not json"
		}
		return fmt.Sprintf("{\"name\": %q, \"id\": %d}", a, v)
	case "yaml":
		if !valid {
			if v%2 == 0 {
				return fmt.Sprintf("name: %s\nid: two\n", a) // well formed, a value of the wrong type
			}
			return "name: [unclosed\n  - x: {"
		}
		return fmt.Sprintf("name: %s\nid: %d\n", a, v)
	default: // toml
		if !valid {
			if v%2 == 0 {
				return fmt.Sprintf("name = %q\nid = \"two\"\n", a) // well formed, a value of the wrong type
			}
			return "name = = broken ["
		}
		return fmt.Sprintf("name = %q\nid = %d\n", a, v)
	}
}

func reloadExt(variant string) string {
	switch variant {
	case "opl":
		return ".ts"
	case "json":
		return ".json"
	case "yaml":
		return ".yaml"
	}
	return ".toml"
}

type reloadEvent map[string]any

func init() { families["reload"] = famReload }

func famReload(t *testing.T) {
	var in reloadIn
	readJSON(*fIn, &in)
	out := newNDWriter(*fOut)
	defer out.close()
	si, sn := shard()
	for i, sq := range in.Seqs {
		if i%sn != si {
			continue
		}
		sq := sq
		t.Run(fmt.Sprintf("s%d", sq.ID), func(t *testing.T) {
			out.write(map[string]any{"id": sq.ID, "events": runReload(t, sq)})
		})
	}
}

// observe maps the visible namespace names to, per file, the version seen
// (0 = nothing, -1 = a partial or mixed set).
func observe(names []string, files []string, variant string) map[string]int {
	per := map[string]map[int][]string{}
	for _, n := range names {
		p := strings.Split(n, "_")
		if len(p) < 3 {
			continue
		}
		var v int
		fmt.Sscan(p[1], &v)
		if per[p[0]] == nil {
			per[p[0]] = map[int][]string{}
		}
		per[p[0]][v] = append(per[p[0]][v], p[2])
	}
	res := map[string]int{}
	for _, f := range files {
		switch m := per[f]; {
		case len(m) == 0:
			res[f] = 0
		case len(m) > 1:
			res[f] = -1
		default:
			for v, parts := range m {
				want := 2
				if variant != "opl" {
					want = 1
				}
				if len(parts) == want {
					res[f] = v
				} else {
					res[f] = -1
				}
			}
		}
	}
	return res
}

func runReload(t *testing.T, sq reloadSeq) []reloadEvent {
	dir := t.TempDir()
	stage := t.TempDir()
	files := []string{}
	for _, s := range sq.Steps {
		found := false
		for _, f := range files {
			found = found || f == s.F
		}
		if !found {
			files = append(files, s.F)
		}
	}
	sort.Strings(files)
	path := func(f string) string { return filepath.Join(dir, f+reloadExt(sq.Variant)) }
	target := dir
	if sq.Single {
		// the watched file must exist when the watcher starts
		if err := os.WriteFile(path(files[0]), []byte(reloadContent(sq.Variant, files[0], 0, true)), 0o600); err != nil {
			t.Fatal(err)
		}
		target = path(files[0])
	}
	var opt driver.TestRegistryOption
	if sq.Variant == "opl" {
		opt = driver.WithConfig(config.KeyNamespaces+".location", "file://"+target)
	} else {
		opt = driver.WithConfig(config.KeyNamespaces, "file://"+target)
	}
	reg := driver.NewSqliteTestRegistry(t, false, driver.WithLogLevel("panic"), opt)
	ctx := context.Background()
	names := func() ([]string, error) {
		nm, err := reg.Config(ctx).NamespaceManager()
		if err != nil {
			return nil, err
		}
		nss, err := nm.Namespaces(ctx)
		if err != nil {
			return nil, err
		}
		var out []string
		for _, n := range nss {
			out = append(out, n.Name)
		}
		sort.Strings(out)
		return out, nil
	}
	// namesT: names(), preceded by a lookup of a name that no version configures (what a check of an unknown
	// namespace does), both abandoned after 10 s: a namespace store that stops answering must not stop the harness
	var stuck atomic.Bool
	var found atomic.Int64
	namesT := func() ([]string, error) {
		if stuck.Load() {
			return nil, errors.New("stuck")
		}
		type res struct {
			ns  []string
			err error
		}
		ch := make(chan res, 1)
		go func() {
			if nm, err := reg.Config(ctx).NamespaceManager(); err == nil {
				if n, err := nm.GetNamespaceByName(ctx, "zz-never-configured"); err == nil && n != nil {
					found.Add(1)
				}
			}
			ns, err := names()
			ch <- res{ns, err}
		}()
		select {
		case r := <-ch:
			return r.ns, r.err
		case <-time.After(10 * time.Second):
			stuck.Store(true)
			return nil, errors.New("stuck")
		}
	}
	var (
		mu     sync.Mutex
		events []reloadEvent
		last   string
	)
	record := func(ev reloadEvent) {
		mu.Lock()
		events = append(events, ev)
		mu.Unlock()
	}
	sample := func(kind string) {
		ns, err := namesT()
		if err != nil {
			return
		}
		o := observe(ns, files, sq.Variant)
		key := fmt.Sprint(o)
		mu.Lock()
		if kind == "final" || key != last {
			last = key
			ev := reloadEvent{"ev": kind}
			for _, f := range files {
				ev["o_"+f] = o[f]
			}
			events = append(events, ev)
		}
		mu.Unlock()
	}
	stop := make(chan struct{})
	var wg sync.WaitGroup
	wg.Add(1)
	go func() {
		defer wg.Done()
		for {
			select {
			case <-stop:
				return
			default:
				if stuck.Load() {
					return
				}
				sample("obs")
				time.Sleep(150 * time.Microsecond)
			}
		}
	}()
	ver := map[string]int{}
	lastValid := map[string]bool{}
	exists := map[string]bool{}
	if sq.Single {
		record(reloadEvent{"ev": "write", "f": files[0], "v": 0, "valid": true})
		exists[files[0]], lastValid[files[0]] = true, true
	}
	time.Sleep(30 * time.Millisecond)
	for _, s := range sq.Steps {
		switch s.Kind {
		case "remove":
			if !exists[s.F] || sq.Single {
				continue
			}
			record(reloadEvent{"ev": "remove", "f": s.F})
			os.Remove(path(s.F))
			exists[s.F] = false
		default:
			ver[s.F]++
			valid := s.Kind == "valid"
			tmp := filepath.Join(stage, fmt.Sprintf("%s.%d", s.F, ver[s.F]))
			if err := os.WriteFile(tmp, []byte(reloadContent(sq.Variant, s.F, ver[s.F], valid)), 0o600); err != nil {
				t.Fatal(err)
			}
			record(reloadEvent{"ev": "write", "f": s.F, "v": ver[s.F], "valid": valid})
			if err := os.Rename(tmp, path(s.F)); err != nil { // atomic replacement: the watcher never sees half a file
				t.Fatal(err)
			}
			exists[s.F], lastValid[s.F] = true, valid
		}
		time.Sleep(time.Duration(5+ver[s.F]%3*8) * time.Millisecond)
	}
	// wait for quiescence: the expected final state, or 15 s
	want := map[string]int{}
	allValid := true
	for _, f := range files {
		if exists[f] && !lastValid[f] {
			allValid = false
		}
	}
	deadline := time.Now().Add(15 * time.Second)
	for time.Now().Before(deadline) && !stuck.Load() {
		ns, _ := namesT()
		o := observe(ns, files, sq.Variant)
		ok := true
		for _, f := range files {
			if exists[f] && lastValid[f] && (sq.Variant != "opl" || allValid) {
				want[f] = ver[f]
				ok = ok && o[f] == ver[f]
			}
			if !exists[f] && (sq.Variant != "opl" || allValid) {
				ok = ok && o[f] == 0
			}
		}
		if ok {
			break
		}
		time.Sleep(20 * time.Millisecond)
	}
	close(stop)
	wg.Wait()
	sample("final")
	if stuck.Load() {
		events = append(events, reloadEvent{"ev": "stuck"})
	}
	if found.Load() > 0 {
		events = append(events, reloadEvent{"ev": "phantom", "n": found.Load()})
	}
	return events
}
