#!/bin/bash
# The repository's pinned baseline with the verif guard OFF (no -tags verif): the command of /root/.vp/BASELINE.json.
cd /repo || exit 2
. /w/out/goenv.sh 2>/dev/null || gomodflag() { echo "-mod=mod"; }
for m in $(cat /w/out/gomods.txt 2>/dev/null || echo ". ./proto"); do
  MF=$(cd /repo/$m && gomodflag)
  (cd /repo/$m && go test $MF -json -vet=off -count=1 -timeout 25m ./...)
done
