package zzverif

import (
	"context"
	"fmt"
	"testing"
	"time"

	"github.com/ory/keto/internal/check"
	"github.com/ory/keto/internal/check/checkgroup"
	"github.com/ory/keto/internal/driver"
	"github.com/ory/keto/internal/namespace"
	"github.com/ory/keto/internal/relationtuple"
	"github.com/ory/keto/ketoapi"
)

// Traverse.tla sizes on the real traverser, and the same wide nodes through the engine.

type travCase struct {
	N     int   `json:"n"`
	Found []int `json:"found"`
}

type travIn struct {
	Cases []travCase `json:"cases"`
	// SQLFaults: additionally, every SQL statement of each engine check is made to fail once (C03 on wide nodes)
	SQLFaults bool `json:"sqlfaults"`
}

const wideGrace = 10 * time.Second

func init() { families["traverse"] = famTraverse }

func famTraverse(t *testing.T) {
	var in travIn
	readJSON(*fIn, &in)
	out := newNDWriter(*fOut)
	defer out.close()
	si, sn := shard()
	for ci, c := range in.Cases {
		if ci%sn != si {
			continue
		}
		c := c
		t.Run(fmt.Sprintf("n%d_%v", c.N, c.Found), func(t *testing.T) {
			reg := driver.NewSqliteTestRegistry(t, false, driver.WithLogLevel("panic"),
				driver.WithNamespaces([]*namespace.Namespace{{Name: "n"}}),
				driver.WithConfig("limit.max_read_width", 60000), driver.WithConfig("limit.max_read_depth", 6))
			ctx := context.Background()
			var ts []*ketoapi.RelationTuple
			for i := 1; i <= c.N; i++ {
				ts = append(ts, &ketoapi.RelationTuple{Namespace: "n", Object: "s", Relation: "r",
					SubjectSet: &ketoapi.SubjectSet{Namespace: "n", Object: fmt.Sprintf("g%d", i), Relation: "m"}})
			}
			its, err := reg.Mapper().FromTuple(ctx, ts...)
			if err != nil {
				t.Fatal(err)
			}
			if err := reg.RelationTupleManager().WriteRelationTuples(ctx, its...); err != nil {
				t.Fatal(err)
			}
			conn := reg.Persister().Connection(ctx)
			byObj := map[string]int{}
			for i, it := range its {
				ss := it.Subject.(*relationtuple.SubjectSet)
				byObj[ss.Object.String()] = i + 1
				if err := conn.RawQuery("UPDATE keto_relation_tuples SET shard_id = ? WHERE subject_set_object = ?",
					fmt.Sprintf("00000000-0000-4000-8000-%012d", i+1), ss.Object).Exec(); err != nil {
					t.Fatal(err)
				}
			}
			// direct members (found rows), and a second-hop member below row `deep`
			var extra []*ketoapi.RelationTuple
			for _, f := range c.Found {
				extra = append(extra, &ketoapi.RelationTuple{Namespace: "n", Object: fmt.Sprintf("g%d", f), Relation: "m", SubjectID: ptr("u")})
			}
			deep := 0
			if c.N > 0 {
				deep = 1 + (c.N*7/10)%c.N
				extra = append(extra, &ketoapi.RelationTuple{Namespace: "n", Object: fmt.Sprintf("g%d", deep), Relation: "m",
					SubjectSet: &ketoapi.SubjectSet{Namespace: "n", Object: "t", Relation: "m"}},
					&ketoapi.RelationTuple{Namespace: "n", Object: "t", Relation: "m", SubjectID: ptr("v")})
			}
			eits, err := reg.Mapper().FromTuple(ctx, extra...)
			if err != nil {
				t.Fatal(err)
			}
			if len(eits) > 0 {
				if err := reg.RelationTupleManager().WriteRelationTuples(ctx, eits...); err != nil {
					t.Fatal(err)
				}
			}
			res := map[string]any{"case": ci}
			q := internalTuple(t, reg, &ketoapi.RelationTuple{Namespace: "n", Object: "s", Relation: "r", SubjectID: ptr("u")})
			// a traversal or check that has not finished after wideGrace is stopped through its context and reported
			tctx, tcancel := context.WithTimeout(ctx, wideGrace)
			sqlCtl.begin(0, 0)
			rows, err := reg.Traverser().TraverseSubjectSetExpansion(tctx, q)
			res["traversal_statements"] = len(sqlCtl.end())
			if tctx.Err() != nil {
				res["traversal_timeout"] = true
			}
			tcancel()
			if err != nil {
				res["error"] = err.Error()
			} else {
				res["count"] = len(rows)
				ids := []int{}
				nfound := 0
				for _, r := range rows {
					ids = append(ids, byObj[r.To.Object.String()])
					if r.Found {
						nfound++
					}
				}
				if len(ids) > 0 {
					res["first"], res["last"] = ids[0], ids[len(ids)-1]
				}
				asc := true
				for i := 1; i < len(ids); i++ {
					asc = asc && ids[i] == ids[i-1]+1
				}
				res["consecutive"], res["nfound"] = asc, nfound
			}
			// the same node through the engine: direct (first hop) and second hop
			eng := check.NewEngine(reg)
			for name, sub := range map[string]string{"u": "u", "v": "v", "nobody": "nobody"} {
				cctx, cancel := context.WithTimeout(ctx, wideGrace)
				r := eng.CheckRelationTuple(cctx, internalTuple(t, reg, &ketoapi.RelationTuple{Namespace: "n", Object: "s", Relation: "r", SubjectID: ptr(sub)}), 0)
				if cctx.Err() != nil {
					res["check_"+name+"_timeout"] = true
				}
				cancel()
				res["check_"+name] = r.Membership == checkgroup.IsMember && r.Err == nil
				if r.Err != nil {
					res["check_"+name+"_err"] = r.Err.Error()
				}
			}
			res["deep"] = deep
			if in.SQLFaults {
				for _, sub := range []string{"u", "v", "nobody"} {
					q := internalTuple(t, reg, &ketoapi.RelationTuple{Namespace: "n", Object: "s", Relation: "r", SubjectID: ptr(sub)})
					run := func(failAt int) (byte, int) {
						cctx, cancel := context.WithTimeout(ctx, wideGrace)
						defer cancel()
						sqlCtl.begin(failAt, 0)
						r := eng.CheckRelationTuple(cctx, q, 0)
						n := len(sqlCtl.end())
						return memCode(r), n
					}
					base, n := run(0)
					codes := []byte{}
					ks := []int{}
					// the statements of the root (direct lookup, one per page of subject sets) come first; after
					// them one statement per child follows: the first 8 and a spread of 6 later ones are failed
					for k := 1; k <= n; k++ {
						if k > 8 && (n < 14 || (k-8)%((n-8)/6+1) != 0) {
							continue
						}
						c, _ := run(k)
						codes = append(codes, c)
						ks = append(ks, k)
					}
					res["sqlbase_"+sub], res["sqlstmts_"+sub], res["sqlfault_"+sub], res["sqlks_"+sub] = string(base), n, string(codes), ks
				}
			}
			out.write(res)
		})
	}
}
