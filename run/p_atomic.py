"""C05: StoreImpl.tla (atomicity under faults, crashes, readers) + statement-level fault/crash enumeration + TraceTx"""
import json
import lib
from lib import *

CI, CD = 3000, 100


def cases(tier):
    cs = []
    def add(via, nins, ndel, badins=0, baddel=0, badhow="", crash=False, maxk=0):
        cid = "%s_%d_%d_b%d_%d%s" % (via, nins, ndel, badins, baddel, badhow[:2])
        for c in cs:
            if c["id"] == cid:      # the same shape again: keep the wider sweep
                c["crash"] = c["crash"] or crash
                c["maxk"] = 0 if (maxk == 0 or c["maxk"] == 0) else max(c["maxk"], maxk)
                return
        cs.append({"id": "%s_%d_%d_b%d_%d%s" % (via, nins, ndel, badins, baddel, badhow[:2]), "via": via, "nins": nins, "ndel": ndel,
                   "badins": badins, "baddel": baddel, "badhow": badhow, "crash": crash, "maxk": maxk})
    vias = ["manager-transact", "rest-patch", "grpc-transact"]
    for via in vias:
        for (i, d) in [(1, 0), (0, 2), (2, 1), (3, 2)]:
            add(via, i, d)
        add(via, 3, 2, badins=1, badhow="nosubject")
        add(via, 3, 2, badins=3, badhow="nosubject")
        add(via, 3, 2, baddel=2, badhow="nosubject")
        add(via, 2, 2, badins=2, badhow="unknownns")
        add(via, 2, 2, baddel=1, badhow="unknownns")
    add("manager-write", 3, 0)
    add("manager-write", 3, 0, badins=2, badhow="nosubject")
    add("manager-delete", 0, 3)
    add("manager-delete", 0, 3, baddel=3, badhow="nosubject")
    # the real chunk boundaries
    add("manager-transact", CI + 1, CD + 1, crash=True)
    add("manager-transact", CI + 1, CD + 1, badins=CI + 1, badhow="nosubject")
    add("manager-transact", CI + 1, CD + 1, baddel=CD + 1, badhow="nosubject")
    add("manager-write", CI + 1, 0)
    add("manager-delete", 0, 2 * CD + 1)
    add("rest-patch", 2, 1, crash=True)
    # ... and through the API handlers: a request larger than one insert batch whose LAST insert names an unknown namespace,
    # and a valid one with a failing statement at each of its first ten positions
    for via in ("grpc-transact", "rest-patch"):
        add(via, CI + 1, 2, badins=CI + 1, badhow="unknownns", maxk=4)
        add(via, CI + 1, CD + 1, maxk=10)
    # delete by query: one request, one transaction, however many relationships match (more than any page or chunk size)
    for via in ("rest-delete-query", "grpc-delete-query"):
        add(via, 0, 3)
        add(via, 0, 1100, maxk=30)
    if tier == "thorough":
        add("rest-delete-query", 0, 2300, maxk=60)
        for via in vias:
            add(via, CI, CD)
            add(via, CI + 1, CD + 1)
            add(via, 2 * CI + 1, 2 * CD + 1, crash=(via == "grpc-transact"))
            add(via, CI + 1, CD + 1, badins=CI, badhow="nosubject")
            add(via, CI + 1, CD + 1, badins=CI + 1, badhow="unknownns")
            add(via, CI + 1, CD + 1, baddel=CD, badhow="nosubject")
            add(via, CI - 1, CD - 1, crash=(via == "rest-patch"))
        add("manager-write", 2 * CI, 0, badins=2 * CI, badhow="nosubject")
        add("manager-delete", 0, 2 * CD, baddel=CD + 1, badhow="nosubject")
    return cs


def events(case, stmts, ok, valid):
    nins = 0 if case["via"] == "manager-delete" else case["nins"]
    ndel = 0 if case["via"] == "manager-write" else case["ndel"]
    byquery = case["via"].endswith("-delete-query")
    if byquery:
        ndel = 1      # ONE delete statement (its WHERE clause is the query), in one transaction
    ev = [{"ev": "req", "nins": nins, "ndel": ndel, "mapping": case["via"] in ("rest-patch", "grpc-transact"), "valid": valid}]
    for s in (stmts or []):
        k, t = s["kind"], s["table"]
        if k == "BEGIN":
            ev.append({"ev": "begin", "err": s["err"]})
        elif k == "COMMIT":
            ev.append({"ev": "commit", "err": s["err"]})
        elif k == "ROLLBACK":
            ev.append({"ev": "rollback"})
        elif k == "INSERT" and t == "keto_uuid_mappings":
            ev.append({"ev": "mapins", "rows": s.get("rows", 0), "err": s["err"]})
        elif k == "INSERT" and t == "keto_relation_tuples":
            ev.append({"ev": "insert", "rows": s.get("rows", 0), "err": s["err"]})
        elif k == "DELETE" and t == "keto_relation_tuples":
            ev.append({"ev": "delete", "ors": 1 if byquery else s.get("ors", 0), "err": s["err"]})
        elif k == "SELECT":
            continue
        else:
            ev.append({"ev": "other", "kind": k, "table": t})
    ev.append({"ev": "end", "ok": ok})
    return ev


def validate_tx(text):
    cfg = ('SPECIFICATION Spec\nCONSTANTS\n  TraceFile = "tx.ndjson"\n  CI = %d\n  CD = %d\nPOSTCONDITION Accepted\nCHECK_DEADLOCK FALSE\n' % (CI, CD))
    r = tlc("TraceTx", "ttx.cfg", files={"ttx.cfg": cfg, "tx.ndjson": text}, workers=1, heap="2g", want_lines=False)
    validate_tx.matched = r.depth - 1
    return r.ok


def c05(tier):
    ck = Check("C05", tier)
    binary = build_harness()
    for mapping in ("FALSE", "TRUE"):
        cfg = write_cfg(['Rels = {"r1", "r2"}', "CI = 2", "CD = 1", "MaxIns = 3", "MaxDel = %d" % (2 if tier == "quick" else 3),
                         "WithMapping = %s" % mapping],
                        invariants=["Atomic", "ErrorMeansUnchanged", "OkMeansApplied", "BadNeverApplied", "ReaderOnlyTwoStates"])
        r = tlc("StoreImpl", "si.cfg", files={"si.cfg": cfg}, want_lines=False)
        ck.add_tlc(r)
        if r.violation:
            ck.violation("StoreImpl.tla: " + r.violation, {"tlc": r.raw_tail[-3000:]})
    cs = cases(tier)
    inp = {"cases": cs, "readers": 6 if tier == "quick" else 60}
    recs = run_harness(binary, "atomic", inp, timeout=3000)
    trace = []
    ntr = 0
    seen = set()
    for r in recs:
        if r.get("readers"):
            ck.evaluations += r["reads"]
            ck.extra["reader_reads"] = r["reads"]
            ck.extra["reader_lock_errors"] = r["errors"]
            ck.extra["writer_toggles"] = r["toggles"]
            if r["partial"]:
                ck.violation("a concurrent reader observed a partially applied transaction (%d of %d listings)" % (r["partial"], r["reads"]),
                             {"observed": r["sample"][:2000]})
            if r["reads"] < 20 or r["toggles"] < 20:
                raise Inconclusive("reader/writer run made no progress")
            continue
        if "crash" in r:
            if r.get("error"):
                raise Inconclusive("crash-point driver failed: %s %s" % (r["error"], r.get("out", "")[-500:]))
            if not r["points"]:
                raise Inconclusive("crash-point driver enumerated nothing for %s" % r["crash"])
            for p in r["points"]:
                ck.evaluations += 1
                cid = {"case": r["case"], "crash_before_statement": p["k"], "before": r["before"], "after_ok": r["after_ok"], "observed": p["after"]}
                if p["exit"] != 77:
                    raise Inconclusive("child did not crash at statement %d (exit %s)" % (p["k"], p["exit"]))
                if p["after"] != r["before"]:
                    ck.violation("after a crash before statement %d the database holds a partially applied request" % p["k"], cid)
                ck.nontrivial.add(("crash", r["crash"], p["k"]))
            continue
        seen.add(r["case"]["id"])
        c = r["case"]
        ck.evaluations += 1
        want_after = r["after_expected"] if r["valid"] else r["before"]
        if r["ok"] != r["valid"]:
            ck.violation("request %s: accepted=%s but validity is %s" % (c["id"], r["ok"], r["valid"]), {"case": c, "status": r["status"]})
        if r["after"] != want_after:
            ck.violation("request %s left the store in an unexpected state" % c["id"], {"case": c, "ok": r["ok"], "before": r["before"], "expected": want_after, "observed": r["after"]})
        trace += events(c, r["stmts"], r["ok"], r["valid"])
        ntr += 1
        for f in (r["faults"] or []):
            ck.evaluations += 1
            cid = {"case": c, "failing_statement": f["k"], "statements": [(s["kind"], s["table"], s["err"]) for s in (f["stmts"] or [])],
                   "before": f["before"], "observed": f["after"], "ok": f["ok"], "status": f["status"]}
            if not f["hit"]:
                continue
            if f["ok"]:
                ck.violation("request reported success although statement %d failed" % f["k"], cid)
            if f["after"] != f["before"]:
                ck.violation("a failing statement (%d) left the request partially applied" % f["k"], cid)
            ck.nontrivial.add((c["id"], f["k"]))
            trace += events(c, f["stmts"], f["ok"], r["valid"])
            ntr += 1
            if len(ck.samples) < 3 and f["k"] > 2:
                ck.sample(cid)
        for f in (r.get("busy") or []):
            if not f["hit"]:
                continue
            ck.evaluations += 1
            cid = {"case": c, "statement_meeting_a_lock_conflict": f["k"], "before": f["before"], "observed": f["after"], "ok": f["ok"], "status": f["status"],
                   "expected_if_applied": want_after, "statements_executed": f["nstmts"]}
            if f["ok"] and f["after"] != want_after:
                ck.violation("after a lock conflict on statement %d the request reported success but was not applied completely" % f["k"], cid)
            elif not f["ok"] and f["after"] != f["before"]:
                ck.violation("after a lock conflict on statement %d the request reported an error but was partially applied" % f["k"], cid)
            if f["nstmts"] > r["nstmts"]:
                ck.nontrivial.add((c["id"], "busy", f["k"]))
    missing = [c["id"] for c in cs if c["id"] not in seen]
    if missing:
        raise Inconclusive("cases not executed: %s" % missing[:5])
    text = "\n".join(json.dumps(e) for e in trace) + "\n"
    if not validate_tx(text):
        ck.violation("a recorded statement log is not a behaviour of the transaction shape (one transaction per request, chunk sizes %d/%d, inserts before deletes, nothing after a failure but ROLLBACK)" % (CI, CD),
                     {"trace_events": len(trace), "matched_events": validate_tx.matched,
                      "around_rejection": trace[max(0, validate_tx.matched - 8):validate_tx.matched + 3]})
    else:
        ck.traces += ntr
        # binding self-tests: an extra statement after COMMIT and a wrong chunk size must be rejected
        i = next(i for i, e in enumerate(trace) if e["ev"] == "commit" and not e["err"])
        bad1 = trace[:i + 1] + [{"ev": "insert", "rows": 1, "err": False}] + trace[i + 1:]
        j = next(i for i, e in enumerate(trace) if e["ev"] == "insert")
        bad2 = [dict(e) for e in trace]
        bad2[j]["rows"] += 1
        for name, b in (("statement after commit", bad1), ("wrong chunk size", bad2)):
            if validate_tx("\n".join(json.dumps(e) for e in b) + "\n"):
                raise Inconclusive("self-test failed: statement trace with %s was accepted" % name)
        ck.extra["trace_selftests_rejected"] = 2
    ck.extra["cases"] = len(cs)
    ck.rule = ("request shapes spanning the insert (3000) and delete (100) chunk sizes with an invalid element at chosen positions, over the Manager, REST PATCH "
               "and gRPC Transact; every SQL statement of the fault-free log fails once; crash points are process kills on a file database; "
               "readers list while a writer toggles two states; non-trivial: a fault or crash position that was actually reached")
    ck.assumptions = ["sqlite only (in-memory for faults, file-backed for crash points)", "sqlite lock errors of concurrent readers are not observations",
                      "statements are observed through a wrapping database/sql driver registered under pop's instrumented driver name"]
    ck.finish()
