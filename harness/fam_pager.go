package zzverif

import (
	"context"
	"encoding/json"
	"fmt"
	"net/url"
	"strings"
	"testing"

	"google.golang.org/grpc/status"

	"github.com/ory/keto/internal/relationtuple"
	"github.com/ory/keto/internal/x"
	"github.com/ory/keto/ketoapi"
	rts "github.com/ory/keto/proto/ory/keto/relation_tuples/v1alpha2"
)

// Replay of Pager.tla behaviours and size tables on the real persister.
// A row with id k is the relationship (shape-dependent) whose subject is
// "s<k>" and whose shard_id is the k-th id of a fixed ascending sequence.

type pagerStep struct {
	Op   string `json:"op"`
	Sid  int    `json:"sid"`
	Kind string `json:"kind"`
	Size int    `json:"size"`
}

type pagerIn struct {
	Behaviours []struct {
		Run   int         `json:"run"`
		Steps []pagerStep `json:"steps"`
	} `json:"behaviours"`
	Sizes []struct {
		N    int `json:"n"`
		Size int `json:"size"`
	} `json:"sizes"`
	BadTokens []string `json:"bad_tokens"`
}

func sidUUID(k int) string { return fmt.Sprintf("00000000-0000-4000-8000-%012d", k) }

// query shapes: which fields of the query are given. The matching rows share
// all of them; "other" rows differ in the object.
type pagerShape struct {
	ns, obj, rel, subSet bool
	// dup: all four fields of the query are given and every matching row is a copy of the SAME relationship
	// (rows are told apart by their storage position only; observed row ids are reported as 0)
	dup bool
}

var pagerShapes = []pagerShape{
	{ns: true, obj: true, rel: true}, {ns: true, obj: true}, {ns: true, rel: true}, {obj: true, rel: true},
	{ns: true}, {rel: true}, {obj: true}, {ns: true, obj: true, rel: true, subSet: true},
	{ns: true, obj: true, rel: true, dup: true},
}

type pagerEnv struct {
	*storeEnv
	shape pagerShape
}

func (p *pagerEnv) row(k int, kind string) *ketoapi.RelationTuple {
	obj := "po"
	if kind == "other" {
		obj = "other-object"
	}
	rt := &ketoapi.RelationTuple{Namespace: "n1", Object: obj, Relation: "pr"}
	if p.shape.dup {
		rt.SubjectID = ptr("the-same-subject")
		return rt
	}
	if p.shape.subSet {
		// all matching rows share the subject set; the row id is in the object then
		rt.SubjectSet = &ketoapi.SubjectSet{Namespace: "n2", Object: "pso", Relation: "psr"}
		rt.Object = fmt.Sprintf("%s-%d", obj, k)
		if kind == "other" {
			rt.SubjectSet.Object = "other-pso"
		}
	} else {
		rt.SubjectID = ptr(fmt.Sprintf("s%d", k))
	}
	return rt
}

func (p *pagerEnv) sidOf(rt *ketoapi.RelationTuple) int {
	var k int
	if p.shape.dup {
		return 0
	}
	if p.shape.subSet {
		fmt.Sscanf(strings.TrimPrefix(strings.TrimPrefix(rt.Object, "other-object-"), "po-"), "%d", &k)
	} else if rt.SubjectID != nil {
		fmt.Sscanf(*rt.SubjectID, "s%d", &k)
	}
	return k
}

func (p *pagerEnv) query() (url.Values, *rts.RelationQuery, *ketoapi.RelationQuery) {
	v := url.Values{}
	pq := &rts.RelationQuery{}
	aq := &ketoapi.RelationQuery{}
	if p.shape.subSet {
		v.Set("subject_set.namespace", "n2")
		v.Set("subject_set.object", "pso")
		v.Set("subject_set.relation", "psr")
		pq.Subject = rts.NewSubjectSet("n2", "pso", "psr")
		aq.SubjectSet = &ketoapi.SubjectSet{Namespace: "n2", Object: "pso", Relation: "psr"}
		if p.shape.ns {
			v.Set("namespace", "n1")
			pq.Namespace, aq.Namespace = ptr("n1"), ptr("n1")
		}
		return v, pq, aq
	}
	if p.shape.ns {
		v.Set("namespace", "n1")
		pq.Namespace, aq.Namespace = ptr("n1"), ptr("n1")
	}
	if p.shape.obj {
		v.Set("object", "po")
		pq.Object, aq.Object = ptr("po"), ptr("po")
	}
	if p.shape.rel {
		v.Set("relation", "pr")
		pq.Relation, aq.Relation = ptr("pr"), ptr("pr")
	}
	if p.shape.dup {
		v.Set("subject_id", "the-same-subject")
		pq.Subject = rts.NewSubjectID("the-same-subject")
		aq.SubjectID = ptr("the-same-subject")
	}
	return v, pq, aq
}

// matchesShape: an "other" row must not match the query; with shapes that do
// not constrain the object it would, so those shapes put "other" rows into a
// different relation as well.
func (p *pagerEnv) otherRow(k int) *ketoapi.RelationTuple {
	rt := p.row(k, "other")
	if !p.shape.subSet {
		rt.Namespace, rt.Relation = "n2", "other-rel"
	} else {
		rt.Namespace = "n2"
	}
	return rt
}

func (p *pagerEnv) insert(k int, kind string) {
	ctx := context.Background()
	rt := p.row(k, kind)
	if kind == "other" {
		rt = p.otherRow(k)
	}
	its, err := p.reg.Mapper().FromTuple(ctx, rt)
	if err != nil {
		p.t.Fatalf("map: %v", err)
	}
	if err := p.reg.RelationTupleManager().WriteRelationTuples(ctx, its...); err != nil {
		p.t.Fatalf("write: %v", err)
	}
	if err := p.reg.Persister().Connection(ctx).RawQuery(
		"UPDATE keto_relation_tuples SET shard_id = ? WHERE rowid = (SELECT MAX(rowid) FROM keto_relation_tuples)", sidUUID(k)).Exec(); err != nil {
		p.t.Fatalf("order: %v", err)
	}
}

func (p *pagerEnv) delete(k int) {
	ctx := context.Background()
	if err := p.reg.Persister().Connection(ctx).RawQuery("DELETE FROM keto_relation_tuples WHERE shard_id = ?", sidUUID(k)).Exec(); err != nil {
		p.t.Fatalf("delete: %v", err)
	}
}

type pageObs struct {
	Rows   []int  `json:"rows"`
	Tok    string `json:"tok"`
	Status string `json:"status"`
	Via    string `json:"via"`
}

// fetch gets one page over the transport chosen by `via`.
func (p *pagerEnv) fetch(via int, size int, token string) pageObs {
	v, pq, aq := p.query()
	o := pageObs{Rows: []int{}}
	switch via % 3 {
	case 0:
		o.Via = "rest"
		v.Set("page_size", fmt.Sprint(size))
		if token != "" {
			v.Set("page_token", token)
		}
		code, body := p.do("A", p.rr, "GET", "/relation-tuples?"+v.Encode(), nil)
		o.Status = fmt.Sprint(code)
		if code == 200 {
			var resp ketoapi.GetResponse
			if err := json.Unmarshal(body, &resp); err != nil {
				o.Status = "badjson"
				return o
			}
			for _, rt := range resp.RelationTuples {
				o.Rows = append(o.Rows, p.sidOf(rt))
			}
			o.Tok = resp.NextPageToken
		}
	case 1:
		o.Via = "grpc"
		resp, err := p.rt.ListRelationTuples(p.ctx("A"), &rts.ListRelationTuplesRequest{RelationQuery: pq, PageSize: int32(size), PageToken: token})
		o.Status = status.Code(err).String()
		if err == nil {
			for _, pt := range resp.RelationTuples {
				o.Rows = append(o.Rows, p.sidOf((&ketoapi.RelationTuple{}).FromProto(pt)))
			}
			o.Tok = resp.NextPageToken
		}
	default:
		o.Via = "manager"
		ctx := p.ctx("A")
		iq, err := p.reg.ReadOnlyMapper().FromQuery(ctx, aq)
		if err != nil {
			o.Status = "map:" + err.Error()
			return o
		}
		ts, next, err := p.reg.RelationTupleManager().GetRelationTuples(ctx, iq, x.WithSize(size), x.WithToken(token))
		if err != nil {
			o.Status = "err:" + err.Error()
			return o
		}
		o.Status = "OK"
		ats, err := p.reg.ReadOnlyMapper().ToTuple(ctx, ts...)
		if err != nil {
			o.Status = "tomap:" + err.Error()
			return o
		}
		for _, rt := range ats {
			o.Rows = append(o.Rows, p.sidOf(rt))
		}
		o.Tok = next
	}
	return o
}

var _ relationtuple.Manager

func init() { families["pager"] = famPager }

func famPager(t *testing.T) {
	var in pagerIn
	readJSON(*fIn, &in)
	out := newNDWriter(*fOut)
	defer out.close()
	si, sn := shard()
	unit := 0
	for bi, b := range in.Behaviours {
		unit++
		if unit%sn != si {
			continue
		}
		t.Run(fmt.Sprintf("b%d", b.Run), func(t *testing.T) {
			p := &pagerEnv{storeEnv: newStoreEnv(t, storeNamespaces(), *fSeed), shape: pagerShapes[(b.Run+int(*fSeed))%len(pagerShapes)]}
			size, token := 1, ""
			var obs []any
			for i, st := range b.Steps {
				switch st.Op {
				case "ins":
					if !rowExists(p, st.Sid) {
						p.insert(st.Sid, st.Kind)
					}
					obs = append(obs, nil)
				case "del":
					p.delete(st.Sid)
					obs = append(obs, nil)
				case "begin":
					size, token = st.Size, ""
					obs = append(obs, nil)
				case "fetch":
					o := p.fetch(b.Run+i, size, token)
					token = o.Tok
					obs = append(obs, o)
				default:
					obs = append(obs, nil)
				}
			}
			out.write(map[string]any{"b": bi, "obs": obs, "shape": fmt.Sprintf("%+v", p.shape)})
		})
	}
	for zi, z := range in.Sizes {
		unit++
		if unit%sn != si {
			continue
		}
		t.Run(fmt.Sprintf("z%d_%d", z.N, z.Size), func(t *testing.T) {
			p := &pagerEnv{storeEnv: newStoreEnv(t, storeNamespaces(), *fSeed), shape: pagerShapes[(zi+int(*fSeed))%len(pagerShapes)]}
			// N matching rows (bulk insert through the manager), plus a few non-matching ones in between
			ctx := context.Background()
			var its []*relationtuple.RelationTuple
			for k := 1; k <= z.N; k++ {
				x, err := p.reg.Mapper().FromTuple(ctx, p.row(k, "match"))
				if err != nil {
					t.Fatal(err)
				}
				its = append(its, x...)
			}
			if err := p.reg.RelationTupleManager().WriteRelationTuples(ctx, its...); err != nil {
				t.Fatal(err)
			}
			// impose the order: the row whose id is k gets the k-th shard id
			for k := 1; k <= z.N; k++ {
				rt := p.row(k, "match")
				it, _ := p.reg.ReadOnlyMapper().FromTuple(ctx, rt)
				c := p.reg.Persister().Connection(ctx)
				var err error
				if p.shape.dup {
					// copies of one relationship: told apart by insertion order only
					err = c.RawQuery("UPDATE keto_relation_tuples SET shard_id = ? WHERE rowid = (SELECT rowid FROM keto_relation_tuples ORDER BY rowid LIMIT 1 OFFSET ?)", sidUUID(k), k-1).Exec()
				} else if p.shape.subSet {
					err = c.RawQuery("UPDATE keto_relation_tuples SET shard_id = ? WHERE object = ?", sidUUID(k), it[0].Object).Exec()
				} else {
					err = c.RawQuery("UPDATE keto_relation_tuples SET shard_id = ? WHERE subject_id = ?", sidUUID(k), it[0].Subject.(*relationtuple.SubjectID).ID).Exec()
				}
				if err != nil {
					t.Fatal(err)
				}
			}
			for k := 1; k <= 3; k++ {
				p.insert(900000+k*7, "other")
			}
			// iterate with the page size; size 100 is also requested as 0 (= default)
			for _, send := range []int{z.Size, -1} {
				if send == -1 {
					if z.Size != 100 {
						continue
					}
					send = 0
				}
				for via := 0; via < 3; via++ {
					token := ""
					var lens, last []int
					statusS := "OK"
					for pages := 0; pages < 1000; pages++ {
						o := p.fetch(via, send, token)
						if o.Status != "OK" && o.Status != "200" {
							statusS = o.Status
							break
						}
						lens = append(lens, len(o.Rows))
						l := 0
						if len(o.Rows) > 0 {
							l = o.Rows[len(o.Rows)-1]
						}
						last = append(last, l)
						token = o.Tok
						if token == "" {
							break
						}
					}
					out.write(map[string]any{"z": zi, "via": via, "send": send, "lens": lens, "last": last, "status": statusS, "dup": p.shape.dup})
				}
			}
			// malformed tokens must be client errors
			for _, bt := range in.BadTokens {
				for via := 0; via < 2; via++ {
					o := p.fetch(via, 2, bt)
					out.write(map[string]any{"badtoken": bt, "via": o.Via, "status": o.Status, "z": zi})
				}
			}
		})
	}
}

func rowExists(p *pagerEnv, k int) bool {
	var cnt int
	if err := p.reg.Persister().Connection(context.Background()).RawQuery("SELECT COUNT(*) FROM keto_relation_tuples WHERE shard_id = ?", sidUUID(k)).First(&cnt); err != nil {
		p.t.Fatalf("exists: %v", err)
	}
	return cnt > 0
}
