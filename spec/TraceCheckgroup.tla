------------------------- MODULE TraceCheckgroup -------------------------
(***************************************************************************)
(* Trace validation of the checkgroup consumer (hook H2).                  *)
(*                                                                         *)
(* The consumer goroutine of a group is single threaded, so the events it  *)
(* emits are totally ordered without clocks.  The trace file holds the     *)
(* consumer logs of many groups one after the other (a "start" event       *)
(* begins a new group).  Every event must be a step of the consumer of     *)
(* Checkgroup.tla projected to the consumer's own variables:               *)
(*   start     ConsumerStart  (one reservation is issued)                  *)
(*   add       RecvAdd        (only possible while a reservation is out)   *)
(*   finalize  RecvFinalize                                                *)
(*   result    RecvResult     (re-issues the reservation unless deciding)  *)
(*   ctxdone   RecvCtxDone                                                 *)
(*   exit      the deferred block; the logged result must be the one the   *)
(*             preceding event implies, and the logged counters must equal *)
(*             the spec's counters                                         *)
(***************************************************************************)
EXTENDS Integers, Sequences, TLC, Json

CONSTANT TraceFile
Trace == ndJsonDeserialize(TraceFile)

VARIABLES l, live, total, finished, finalizing, reserve, expectExit
vars == <<l, live, total, finished, finalizing, reserve, expectExit>>

NoExit == [m |-> "none", e |-> FALSE]
Init == l = 1 /\ live = FALSE /\ total = 0 /\ finished = 0 /\ finalizing = FALSE /\ reserve = 0
        /\ expectExit = NoExit
Ev(e) == l <= Len(Trace) /\ Trace[l].ev = e /\ l' = l + 1

Start == /\ Ev("start") /\ ~live
         /\ live' = TRUE /\ total' = 0 /\ finished' = 0 /\ finalizing' = FALSE /\ reserve' = 1
         /\ expectExit' = NoExit
\* an add can only come from a caller that holds the single reservation
Add == /\ Ev("add") /\ live /\ expectExit = NoExit /\ reserve = 1
       /\ Trace[l].fin = finalizing
       /\ reserve' = 0
       /\ total' = IF finalizing THEN total ELSE total + 1
       /\ UNCHANGED <<live, finished, finalizing, expectExit>>
Finalize == /\ Ev("finalize") /\ live /\ expectExit = NoExit
            /\ finalizing' = TRUE
            /\ expectExit' = IF ~finalizing /\ finished = total THEN [m |-> "NotMember", e |-> FALSE] ELSE NoExit
            /\ UNCHANGED <<live, total, finished, reserve>>
Result == /\ Ev("result") /\ live /\ expectExit = NoExit /\ total - finished >= 1
          /\ finished' = finished + 1
          /\ LET r == Trace[l] IN
             IF r.e \/ r.m = "IsMember"
             THEN expectExit' = [m |-> r.m, e |-> r.e] /\ UNCHANGED reserve
             ELSE IF finalizing /\ finished + 1 = total
                  THEN expectExit' = [m |-> "NotMember", e |-> FALSE] /\ UNCHANGED reserve
                  ELSE expectExit' = NoExit /\ reserve' = 1
          /\ UNCHANGED <<live, total, finalizing>>
CtxDone == /\ Ev("ctxdone") /\ live /\ expectExit = NoExit
           /\ expectExit' = [m |-> "MembershipUnknown", e |-> Trace[l].perr]
           /\ UNCHANGED <<live, total, finished, finalizing, reserve>>
Exit == /\ Ev("exit") /\ live /\ expectExit # NoExit
        /\ Trace[l].m = expectExit.m /\ Trace[l].e = expectExit.e
        /\ Trace[l].total = total /\ Trace[l].finished = finished
        /\ live' = FALSE /\ expectExit' = NoExit
        /\ UNCHANGED <<total, finished, finalizing, reserve>>
Next == Start \/ Add \/ Finalize \/ Result \/ CtxDone \/ Exit
Spec == Init /\ [][Next]_vars

AtMostOneInFlight == total - finished <= 1
\* the whole file was consumed: one state per event plus the initial state
Accepted == TLCGet("stats").diameter - 1 = Len(Trace)
=============================================================================
