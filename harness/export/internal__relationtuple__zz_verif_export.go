//go:build verif

package relationtuple

import (
	"github.com/ory/keto/ketoapi"
	rts "github.com/ory/keto/proto/ory/keto/relation_tuples/v1alpha2"
)

// Added by the /verif overlay (never part of the repository): the decoding of a
// gRPC relation query exactly as the list and delete handlers do it.
func VerifQueryFromProto(q *rts.RelationQuery) *ketoapi.RelationQuery {
	return (&ketoapi.RelationQuery{}).FromDataProvider(&queryWrapper{q})
}
