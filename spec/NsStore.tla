------------------------------ MODULE NsStore ------------------------------
(***************************************************************************)
(* The in-memory namespace store (internal/driver/config/                  *)
(* namespace_memory.go) as a lock protocol: every step of a check, the     *)
(* mapper and the traverser look a namespace up under the READ lock        *)
(* (GetNamespaceByName, Namespaces); the OPL / file watchers replace the   *)
(* whole content under the WRITE lock (set).  The lock is Go's             *)
(* sync.RWMutex: a writer that is waiting keeps later readers out, and it  *)
(* gets the lock when the readers that were in have left.                  *)
(*                                                                         *)
(* What the rest of the specification takes for granted and this module    *)
(* states: a lookup leaves the lock as it found it on EVERY path (found,   *)
(* unknown name), so that a reload always gets through and the lookups     *)
(* after it do too (C15 "every check returns", C19 "the last valid         *)
(* version eventually takes effect").                                     *)
(*                                                                         *)
(* LeakOnUnknown = TRUE is the slip of forgetting the unlock on the        *)
(* early return for an unknown name: TLC then shows the reload waiting     *)
(* for ever and every later lookup behind it (the seeded change            *)
(* C15-rlock-leak-unknown-namespace).                                      *)
(*                                                                         *)
(* Bound to the code by the Reconf histories with the namespaces in a      *)
(* watched OPL file (requests under deadlines) and by the reload sampler   *)
(* of C19, which looks up a name no version configures before each listing.*)
(***************************************************************************)
EXTENDS Integers, FiniteSets

CONSTANTS Readers,        \* request goroutines that look names up
          MaxSets,        \* reloads
          MaxLookups,     \* lookups per reader
          LeakOnUnknown

VARIABLES rheld,    \* number of read locks held on the mutex
          wheld,    \* the write lock is held
          wwait,    \* a writer is waiting (later RLock calls block)
          rpc,      \* reader -> "idle" | "in" (holds the read lock, looking up) | "blocked" (inside RLock)
          rarg,     \* reader -> "known" | "unknown": the name being looked up
          rdone,    \* reader -> lookups completed
          wpc,      \* "idle" | "waiting" | "writing"
          version   \* content version served
vars == <<rheld, wheld, wwait, rpc, rarg, rdone, wpc, version>>

Init == /\ rheld = 0 /\ wheld = FALSE /\ wwait = FALSE
        /\ rpc = [r \in Readers |-> "idle"] /\ rarg = [r \in Readers |-> "known"]
        /\ rdone = [r \in Readers |-> 0]
        /\ wpc = "idle" /\ version = 0

\* a reader calls RLock: it either gets in or blocks behind a writer (holding or waiting)
Call(r, a) == /\ rpc[r] = "idle" /\ rdone[r] < MaxLookups
              /\ rarg' = [rarg EXCEPT ![r] = a]
              /\ IF wheld \/ wwait
                 THEN rpc' = [rpc EXCEPT ![r] = "blocked"] /\ UNCHANGED rheld
                 ELSE rpc' = [rpc EXCEPT ![r] = "in"] /\ rheld' = rheld + 1
              /\ UNCHANGED <<wheld, wwait, rdone, wpc, version>>
\* a blocked reader gets in once no writer holds or waits
Unblock(r) == /\ rpc[r] = "blocked" /\ ~wheld /\ ~wwait
              /\ rpc' = [rpc EXCEPT ![r] = "in"] /\ rheld' = rheld + 1
              /\ UNCHANGED <<wheld, wwait, rarg, rdone, wpc, version>>
\* the lookup returns: found, or "unknown namespace" - both release the lock (unless the slip)
Return(r) == /\ rpc[r] = "in"
             /\ rpc' = [rpc EXCEPT ![r] = "idle"] /\ rdone' = [rdone EXCEPT ![r] = @ + 1]
             /\ rheld' = IF LeakOnUnknown /\ rarg[r] = "unknown" THEN rheld ELSE rheld - 1
             /\ UNCHANGED <<wheld, wwait, rarg, wpc, version>>
\* the watcher parsed a new valid version and calls set(): Lock()
WantSet == /\ wpc = "idle" /\ version < MaxSets
           /\ wpc' = "waiting" /\ wwait' = TRUE
           /\ UNCHANGED <<rheld, wheld, rpc, rarg, rdone, version>>
GetSet == /\ wpc = "waiting" /\ rheld = 0
          /\ wpc' = "writing" /\ wheld' = TRUE /\ wwait' = FALSE
          /\ UNCHANGED <<rheld, rpc, rarg, rdone, version>>
DoneSet == /\ wpc = "writing"
           /\ wpc' = "idle" /\ wheld' = FALSE /\ version' = version + 1
           /\ UNCHANGED <<rheld, wwait, rpc, rarg, rdone>>

Next == \/ \E r \in Readers : \/ \E a \in {"known", "unknown"} : Call(r, a)
                              \/ Unblock(r) \/ Return(r)
        \/ WantSet \/ GetSet \/ DoneSet
        \/ (* everything done *) (/\ \A r \in Readers : rdone[r] = MaxLookups /\ rpc[r] = "idle"
                                  /\ wpc = "idle" /\ version = MaxSets /\ UNCHANGED vars)
Spec == Init /\ [][Next]_vars /\ WF_vars(Next)
             /\ \A r \in Readers : WF_vars(Unblock(r)) /\ WF_vars(Return(r))
             /\ WF_vars(GetSet) /\ WF_vars(DoneSet)

TypeOK == /\ rheld \in 0..Cardinality(Readers) * MaxLookups /\ wheld \in BOOLEAN /\ wwait \in BOOLEAN
          /\ wpc \in {"idle", "waiting", "writing"} /\ version \in 0..MaxSets
\* the mutex counts exactly the readers that are inside: nothing is leaked, nothing is released twice
LockBalanced == rheld = Cardinality({r \in Readers : rpc[r] = "in"})
\* readers and the writer exclude each other
Exclusion == wheld => rheld = 0
\* a reload that was asked for gets through, and a lookup that was called returns
ReloadGetsThrough == (wpc = "waiting") ~> (wpc = "writing")
LookupReturns == \A r \in Readers : (rpc[r] # "idle") ~> (rpc[r] = "idle")
=============================================================================
