package zzverif

import (
	"context"
	"encoding/json"
	"fmt"
	"strings"
	"testing"
	"time"

	"github.com/ory/keto/internal/namespace"
	"github.com/ory/keto/internal/namespace/ast"
	"github.com/ory/keto/internal/schema"
	"github.com/ory/keto/ketoapi"
	opl "github.com/ory/keto/proto/ory/keto/opl/v1alpha1"
)

// C12 (lexer items, parser totality, syntax endpoints) and the parsing half of C10/C11.

type oplProg struct {
	Kw     bool   `json:"kw"` // relation names begin with keyword letters (see kwNames)
	Src    string `json:"src"`
	Engine bool   `json:"engine"` // also evaluate through a real server configured with the program
	LeafC  string `json:"leafc"`  // how the leaf c is spelled: inc | trav_rel | trav_perm | perm
}

type oplTypeProg struct {
	Src    string   `json:"src"`
	Tuples []jtuple `json:"tuples"`
}

type oplIn struct {
	TypeProgs []oplTypeProg `json:"typeprogs"`
	Progs     []oplProg     `json:"progs"`
	Lex       [][]string    `json:"lex"`   // character sequences of OplLex.tla
	Texts     []string      `json:"texts"` // whole programs / byte strings (base64 not needed: JSON strings, invalid UTF-8 as \u escapes is not possible, see Raw)
	Raw       [][]int       `json:"raw"`   // byte strings given as integer arrays
	// Skip: per kind, indices that are not run (done in an earlier attempt, or the process died on them)
	Skip map[string][]int `json:"skip"`
}

var oplChar = map[string]string{"E": "é", "B": "\x80"}

func oplText(chars []string) string {
	var b strings.Builder
	for _, c := range chars {
		if s, ok := oplChar[c]; ok {
			b.WriteString(s)
		} else {
			b.WriteString(c)
		}
	}
	return b.String()
}

type parseObs struct {
	Panic      string   `json:"panic,omitempty"`
	Hang       bool     `json:"hang,omitempty"`    // Parse had not returned after parseGrace
	Skipped    bool     `json:"skipped,omitempty"` // not waited for: earlier parses of this process did not return
	NNamespace int      `json:"nns"`
	NErrors    int      `json:"nerr"`
	Bad        []string `json:"bad,omitempty"` // violated clauses about error positions / rendering
	Ms         int64    `json:"ms"`
	RestSame   bool     `json:"rest_same"`
	GrpcSame   bool     `json:"grpc_same"`
	RestStatus int      `json:"rest_status"`
	GrpcCode   string   `json:"grpc_code"`
	Msgs       []string `json:"msgs,omitempty"`
}

// parseTotal runs the parser and everything that can be done with its errors.
const parseGrace = 30 * time.Second

// after this many parses that did not return, further ones are given one second (the point is made; their goroutines keep
// processors busy, and each full grace period would cost half a minute)
const maxParseHangs = 4

var parseHangs int

func (e *storeEnv) parseTotal(src string, transports bool) (o parseObs) {
	defer func() {
		if p := recover(); p != nil {
			o.Panic = fmt.Sprint(p)
		}
	}()
	t0 := time.Now()
	// "terminates": a parse that has not returned after parseGrace is reported as such and abandoned
	type parsed struct {
		nss  []namespace.Namespace
		errs []*schema.ParseError
		pan  any
	}
	pch := make(chan parsed, 1)
	go func() {
		defer func() {
			if p := recover(); p != nil {
				pch <- parsed{pan: p}
			}
		}()
		n, e := schema.Parse(src)
		pch <- parsed{nss: n, errs: e}
	}()
	var nss []namespace.Namespace
	var errs []*schema.ParseError
	select {
	case r := <-pch:
		if r.pan != nil {
			panic(r.pan)
		}
		nss, errs = r.nss, r.errs
	case <-time.After(map[bool]time.Duration{false: parseGrace, true: time.Second}[parseHangs >= maxParseHangs]):
		if parseHangs >= maxParseHangs {
			o.Skipped = true
		} else {
			o.Hang = true
		}
		parseHangs++
		o.Ms = time.Since(t0).Milliseconds()
		return
	}
	o.Ms = time.Since(t0).Milliseconds()
	o.NNamespace, o.NErrors = len(nss), len(errs)
	lines := strings.Count(src, "\n") + 1
	var apiMsgs []string
	for _, pe := range errs {
		s, en := pe.VerifSpan()
		if s > en {
			o.Bad = append(o.Bad, fmt.Sprintf("error span start %d after end %d", s, en))
		}
		if s < 0 || en > len(src) {
			o.Bad = append(o.Bad, fmt.Sprintf("error span [%d,%d] outside the input of %d bytes", s, en, len(src)))
		}
		_ = pe.Error()
		a := pe.ToAPI()
		p := pe.ToProto()
		if !(1 <= a.Start.Line && a.Start.Line <= a.End.Line && a.End.Line <= lines+1) {
			o.Bad = append(o.Bad, fmt.Sprintf("lines start=%d end=%d of %d", a.Start.Line, a.End.Line, lines))
		}
		if int(p.Start.Line) != a.Start.Line || int(p.End.Line) != a.End.Line || p.Message != a.Message {
			o.Bad = append(o.Bad, "proto and api rendering of the error differ")
		}
		apiMsgs = append(apiMsgs, fmt.Sprintf("%s@%d:%d-%d:%d", a.Message, a.Start.Line, a.Start.Col, a.End.Line, a.End.Col))
		if len(o.Msgs) < 3 {
			o.Msgs = append(o.Msgs, a.Message)
		}
	}
	// a diagnosis belongs to its document: it reads the same after another document has been parsed
	if len(errs) > 0 {
		schema.Parse("// another document\n//\n//\nclass Other implements Namespace { related: { x: Missing[] } }\n")
		for i, pe := range errs {
			a := pe.ToAPI()
			if again := fmt.Sprintf("%s@%d:%d-%d:%d", a.Message, a.Start.Line, a.Start.Col, a.End.Line, a.End.Col); again != apiMsgs[i] {
				o.Bad = append(o.Bad, fmt.Sprintf("an error read %q when it was reported and %q after another document was parsed", apiMsgs[i], again))
				break
			}
		}
	}
	if transports {
		code, body := e.do("A", e.sr, "POST", "/opl/syntax/check", []byte(src))
		o.RestStatus = code
		var resp struct {
			Errors []struct {
				Message string `json:"message"`
				Start   struct{ Line, Column int }
				End     struct{ Line, Column int }
			} `json:"errors"`
		}
		var rest []string
		if err := json.Unmarshal(body, &resp); err == nil {
			for _, x := range resp.Errors {
				rest = append(rest, fmt.Sprintf("%s@%d:%d-%d:%d", x.Message, x.Start.Line, x.Start.Column, x.End.Line, x.End.Column))
			}
		}
		// (JSON cannot carry bytes that are not UTF-8: the comparison is on what encoding/json makes of the parser's text)
		o.RestSame = code == 200 && strings.Join(rest, "\n") == jsonText(strings.Join(apiMsgs, "\n"))
		gr, err := grpcWire(e.sx.Check(context.Background(), &opl.CheckRequest{Content: []byte(src)}))
		if err != nil {
			o.GrpcCode = err.Error()
		} else {
			o.GrpcCode = "OK"
			var g []string
			for _, x := range gr.ParseErrors {
				g = append(g, fmt.Sprintf("%s@%d:%d-%d:%d", x.Message, x.Start.Line, x.Start.Column, x.End.Line, x.End.Column))
			}
			o.GrpcSame = strings.Join(g, "\n") == strings.Join(apiMsgs, "\n")
		}
	}
	return
}

// relation names that begin with the letters of a keyword (OplGrammar.tla, variant kw) stand for a, b, c, par
var kwNames = map[string]string{"classmates": "a", "thisb": "b", "ctxc": "c", "implementspar": "par"}

func plainName(r string) string {
	if p, ok := kwNames[r]; ok {
		return p
	}
	return r
}

// evalChild evaluates a parsed rewrite under a valuation of the leaf relations.
func evalChild(c ast.Child, val map[string]bool) bool {
	switch x := c.(type) {
	case *ast.ComputedSubjectSet:
		if x.Relation == "q" { // permits.q is the leaf c
			return val["c"]
		}
		return val[plainName(x.Relation)]
	case *ast.TupleToSubjectSet:
		// the leaf c through a traversal of D.par: holds iff it holds on the (one) parent
		if plainName(x.Relation) != "par" || (plainName(x.ComputedSubjectSetRelation) != "c" && x.ComputedSubjectSetRelation != "q") {
			panic(fmt.Sprintf("unexpected traversal %s -> %s", x.Relation, x.ComputedSubjectSetRelation))
		}
		return val["c"]
	case *ast.InvertResult:
		return !evalChild(x.Child, val)
	case *ast.SubjectSetRewrite:
		if x.Operation == ast.OperatorAnd {
			for _, ch := range x.Children {
				if !evalChild(ch, val) {
					return false
				}
			}
			return len(x.Children) > 0
		}
		for _, ch := range x.Children {
			if evalChild(ch, val) {
				return true
			}
		}
		return false
	}
	panic(fmt.Sprintf("unexpected AST node %T", c))
}

var abcVals = func() (out []map[string]bool) {
	for i := 0; i < 8; i++ {
		out = append(out, map[string]bool{"a": i&4 != 0, "b": i&2 != 0, "c": i&1 != 0})
	}
	return
}()

// progObs: parse the program, the truth table of permission p of namespace D.
func progObs(t *testing.T, p oplProg) map[string]any {
	res := map[string]any{}
	defer func() {
		if r := recover(); r != nil {
			res["panic"] = fmt.Sprint(r)
		}
	}()
	nss, errs := schema.Parse(p.Src)
	var msgs []string
	for _, e := range errs {
		msgs = append(msgs, e.ToAPI().Message)
	}
	res["errors"] = msgs
	if len(errs) > 0 {
		return res
	}
	var rw *ast.SubjectSetRewrite
	for _, ns := range nss {
		if ns.Name == "D" {
			for _, r := range ns.Relations {
				if r.Name == "p" {
					rw = r.SubjectSetRewrite
				}
			}
			var rels []string
			for _, r := range ns.Relations {
				rels = append(rels, r.Name)
			}
			res["relations"] = rels
		}
	}
	if rw == nil {
		res["errors"] = []string{"permission p of namespace D is missing from the parse result"}
		return res
	}
	tt := [][]bool{}
	for _, v := range abcVals {
		if evalChild(rw, v) {
			tt = append(tt, []bool{v["a"], v["b"], v["c"]})
		}
	}
	res["tt"] = tt
	relName := func(x string) string {
		if p.Kw {
			for k, v := range kwNames {
				if v == x {
					return k
				}
			}
		}
		return x
	}
	if p.Engine {
		// a server configured with the program: the leaves hold iff the direct tuple exists
		reg := newRegistry(t, regOpts{opl: p.Src, gdepth: 30})
		ett := [][]bool{}
		for _, v := range abcVals {
			resetTuples(t, reg)
			var stored []*ketoapi.RelationTuple
			for _, l := range []string{"a", "b", "c"} {
				if v[l] {
					obj := "d"
					if l == "c" && (p.LeafC == "trav_rel" || p.LeafC == "trav_perm") {
						obj = "e" // the leaf holds on the parent
					}
					stored = append(stored, &ketoapi.RelationTuple{Namespace: "D", Object: obj, Relation: relName(l), SubjectID: ptr("u")})
				}
			}
			// d always has the parent e (and a second parent on which nothing holds)
			stored = append(stored,
				&ketoapi.RelationTuple{Namespace: "D", Object: "d", Relation: relName("par"), SubjectSet: &ketoapi.SubjectSet{Namespace: "D", Object: "e"}},
				&ketoapi.RelationTuple{Namespace: "D", Object: "d", Relation: relName("par"), SubjectSet: &ketoapi.SubjectSet{Namespace: "D", Object: "f"}})
			writeOrdered(t, reg, stored)
			ctx, cancel := context.WithCancel(context.Background())
			ok, err := reg.PermissionEngine().CheckIsMember(ctx, internalTuple(t, reg, &ketoapi.RelationTuple{Namespace: "D", Object: "d", Relation: "p", SubjectID: ptr("u")}), 0)
			cancel()
			if err != nil {
				res["engine_err"] = err.Error()
				break
			}
			if ok {
				ett = append(ett, []bool{v["a"], v["b"], v["c"]})
			}
		}
		res["engine_tt"] = ett
	}
	return res
}

// typeProgObs: parse errors with the text they point at; for accepted programs
// the errors of checks on relationships that conform to the declared types.
func typeProgObs(t *testing.T, p oplTypeProg) map[string]any {
	res := map[string]any{}
	defer func() {
		if r := recover(); r != nil {
			res["panic"] = fmt.Sprint(r)
		}
	}()
	nss, errs := schema.Parse(p.Src)
	var pe []map[string]any
	for _, e := range errs {
		s, en := e.VerifSpan()
		txt := ""
		if s >= 0 && en <= len(p.Src) && s <= en {
			txt = p.Src[s:en]
		}
		pe = append(pe, map[string]any{"msg": e.ToAPI().Message, "at": txt})
	}
	res["errors"] = pe
	if len(errs) > 0 {
		return res
	}
	reg := newRegistry(t, regOpts{opl: p.Src, gdepth: 12})
	var stored []*ketoapi.RelationTuple
	for _, jt := range p.Tuples {
		stored = append(stored, jt.api())
	}
	writeOrdered(t, reg, stored)
	var checkErrs []string
	n := 0
	for _, ns := range nss {
		for _, rel := range ns.Relations {
			for _, obj := range []string{"d", "d2", "g", "h", "u1"} {
				for _, sub := range []*ketoapi.RelationTuple{{SubjectID: ptr("u1")}, {SubjectSet: &ketoapi.SubjectSet{Namespace: "U", Object: "u1"}}} {
					q := &ketoapi.RelationTuple{Namespace: ns.Name, Object: obj, Relation: rel.Name, SubjectID: sub.SubjectID, SubjectSet: sub.SubjectSet}
					ctx, cancel := context.WithCancel(context.Background())
					r := reg.PermissionEngine().CheckRelationTuple(ctx, internalTuple(t, reg, q), 0)
					cancel()
					n++
					if r.Err != nil {
						checkErrs = append(checkErrs, fmt.Sprintf("%s: %v", q.String(), r.Err))
					}
				}
			}
		}
	}
	res["checks"], res["check_errors"] = n, checkErrs
	return res
}

func init() { families["opl"] = famOPL }

func famOPL(t *testing.T) {
	var in oplIn
	readJSON(*fIn, &in)
	out := newNDWriter(*fOut)
	defer out.close()
	si, sn := shard()
	e := newStoreEnv(t, storeNamespaces(), *fSeed)
	e.sx = schema.NewHandler(e.reg)
	skip := map[string]map[int]bool{}
	for k, l := range in.Skip {
		skip[k] = map[int]bool{}
		for _, i := range l {
			skip[k][i] = true
		}
	}
	// a start marker before every item: if the process dies, the item it died on is the started one without a result
	begin := func(kind string, i int) bool {
		if i%sn != si || skip[kind][i] {
			return false
		}
		out.write(map[string]any{"start": kind, "i": i})
		out.soft()
		return true
	}
	defer out.soft()
	for i, p := range in.TypeProgs {
		if !begin("typeprog", i) {
			continue
		}
		p := p
		var r map[string]any
		t.Run(fmt.Sprintf("tp%d", i), func(t *testing.T) { r = typeProgObs(t, p) })
		r["typeprog"] = i
		out.write(r)
	}
	for i, p := range in.Progs {
		if !begin("prog", i) {
			continue
		}
		p := p
		var r map[string]any
		t.Run(fmt.Sprintf("p%d", i), func(t *testing.T) { r = progObs(t, p) })
		r["prog"] = i
		out.write(r)
	}
	for i, chars := range in.Lex {
		if !begin("lex", i) {
			continue
		}
		src := oplText(chars)
		res := map[string]any{"lex": i}
		lexDone := make(chan struct{})
		go func() {
			defer close(lexDone)
			defer func() {
				if p := recover(); p != nil {
					res["panic"] = fmt.Sprint(p)
				}
			}()
			items, ok := schema.VerifLex(src, len(src)+5)
			res["items"], res["terminated"] = items, ok
		}()
		select {
		case <-lexDone:
		case <-time.After(parseGrace):
			// the lexer is stuck: reported as "did not finish"; the goroutine is abandoned (res is not touched by it any more
			// in practice, and a copy is written)
			res = map[string]any{"lex": i, "items": []any{}, "terminated": false}
		}
		res["parse"] = e.parseTotal(src, i%7 == 0)
		out.write(res)
	}
	for i, txt := range in.Texts {
		if !begin("text", i) {
			continue
		}
		out.write(map[string]any{"text": i, "parse": e.parseTotal(txt, true)})
	}
	for i, raw := range in.Raw {
		if !begin("raw", i) {
			continue
		}
		b := make([]byte, len(raw))
		for j, x := range raw {
			b[j] = byte(x)
		}
		out.write(map[string]any{"raw": i, "parse": e.parseTotal(string(b), true)})
	}
}
