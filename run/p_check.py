"""C01, C02, C03, C15: the check engine. TLC (CheckCases.tla) enumerates the case space, checks
the design-level claims and prints the oracle; the harness replays every case on the real engine."""
import json, os, sys
from lib import *

FAMS_QUICK = ["rw", "nest", "plain", "rec", "strictx", "alias"]

# tier -> per family TLC constants
TIERS = {
    "quick": dict(sample=40, dmax=7, widths="W_2", nwid=2, ords=2, strict="{FALSE, TRUE}"),
    "thorough": dict(sample=0, dmax=8, widths="W_4", nwid=4, ords=4, strict="{FALSE, TRUE}"),
}


def gen(fam, tier, emit=True, sample=None, ords=None):
    p = TIERS[tier]
    cfg = write_cfg([
        'FamName = "%s"' % fam, "StrictSet = %s" % p["strict"], "Widths <- %s" % p["widths"],
        "Dmax = %d" % p["dmax"], "NumOrds = %d" % (ords or p["ords"]),
        "Sample = %d" % (p["sample"] if sample is None else sample), "Emit = %s" % ("TRUE" if emit else "FALSE")],
        invariants=["ClaimsHold"])
    name = "CheckGen_%s.cfg" % fam
    r = tlc("CheckCases", name, files={name: cfg}, extra=["-seed", str(seed())], timeout=3000)
    return r


def oracle(tier, fams, ck, sample=None, ords=None):
    """returns defs {fam: def}, groups [ {f, st, s, o, conf, q:[{ref, w:[{a,i,sh,nb,mc,nc}]}]} ]"""
    defs, groups = {}, []
    for fam in fams:
        r = gen(fam, tier, sample=sample, ords=ords)
        ck.add_tlc(r)
        if r.violation:
            ck.violation("TLC: design-level claim fails in CheckCases family %s: %s" % (fam, r.violation),
                         {"family": fam, "tlc": r.raw_tail[-3000:]})
            continue
        for l in r.lines:
            if "def" in l:
                defs[l["def"]] = l
            else:
                groups.append(l)
    return defs, groups


def harness_groups(groups):
    return [{"f": g["f"], "st": g["st"], "s": g["s"], "o": g["o"]} for g in groups]


def run_plain(binary, defs, groups, gdepth, rdepths, scheds=0, widths=None):
    inp = {"defs": defs, "groups": harness_groups(groups), "gdepth": gdepth, "rdepths": rdepths,
           "scheds": scheds, "mode": "plain", "widths": widths or []}
    recs = run_harness(binary, "check", inp)
    out = {}
    for r in recs:
        out[(r["g"], r["w"], r["run"])] = r
    return out


def case_id(g, wi, qi, d, defs):
    df = defs[g["f"]]
    return {"family": g["f"], "strict": g["st"], "stored": [df["U"][i - 1] for i in g["s"]], "order": g["o"],
            "query": df["Q"][qi], "depth": d, "width": df["widths"][wi]}


def eff(r, g):
    return g if (r <= 0 or g < r) else r


def c01(tier):
    ck = Check("C01", tier)
    binary = build_harness()
    p = TIERS[tier]
    defs, groups = oracle(tier, FAMS_QUICK, ck)
    dmax = p["dmax"]
    rdepths = list(range(1, dmax + 1))
    scheds = 2 if tier == "quick" else 5
    res = run_plain(binary, defs, groups, dmax, rdepths, scheds=scheds)
    drift = 0
    nb_cases = 0
    for gi, g in enumerate(groups):
        df = defs[g["f"]]
        for wi in range(len(df["widths"])):
            for run in range(scheds + 1):
                r = res.get((gi, wi, run))
                if r is None:
                    raise Inconclusive("missing harness result for group %d" % gi)
                if r["leak"]:
                    pass  # goroutine accounting is C15's business
                for qi, q in enumerate(g["q"]):
                    line = q["w"][wi]
                    real = r["res"][qi]
                    for di, d in enumerate(rdepths):
                        ck.evaluations += 1
                        c = real[di]
                        if c == "H":
                            raise Inconclusive("check did not return: %s" % json.dumps(case_id(g, wi, qi, d, defs)))
                        if c != line["a"][di]:
                            drift += 1
                        if line["nb"][di] == "1" and (not g["st"] or g["conf"]):
                            nb_cases += 1
                            want = "I" if q["ref"] else "N"
                            key = (g["f"], g["st"], tuple(g["s"]), g["o"], qi, d, wi)
                            if q["ref"] or len(g["s"]) >= 2:
                                ck.nontrivial.add(key)
                            if c != want:
                                ck.violation("check answered %s, RefSem says %s, limits not binding (schedule run %d)" % (c, want, run),
                                             dict(case_id(g, wi, qi, d, defs), observed=c, expected=want, run=run))
                            elif run == 0 and q["ref"]:
                                ck.sample(dict(case_id(g, wi, qi, d, defs), observed=c, refsem=q["ref"]))
    ck.extra["model_drift"] = drift
    ck.extra["not_binding_cases"] = nb_cases
    ck.extra["schedules_per_case"] = scheds + 1
    ck.rule = ("TLC enumerates (family, mode, stored subset, storage order) states of CheckCases.tla and evaluates "
               "RefSem and NotBinding for every query, width and depth; each is replayed on the real engine "
               "undisturbed and under seeded delay schedules. Non-trivial: limits not binding and (RefSem allowed or >= 2 stored tuples).")
    ck.exhaustive = (p["sample"] == 0)
    ck.assumptions = ["sqlite in-memory backend only", "strict mode asserted on stores that conform to the declared types",
                      "schedules are perturbed by seeded delays at storage calls, not enumerated"]
    ck.finish()


if __name__ == "__main__":
    pass
