------------------------------- MODULE Reconf -------------------------------
(***************************************************************************)
(* Live reconfiguration against requests.                                  *)
(*                                                                         *)
(* limit.max_read_depth, limit.max_read_width and the namespace set are    *)
(* live settings (configuration file watcher, Config.Set, per-tenant       *)
(* configuration).  The statement of this module is the configuration      *)
(* counterpart of "writes are visible to every subsequently issued         *)
(* request" (C04): the reply to a request depends on the request, the      *)
(* stored relationships and the configuration in force WHEN IT IS ISSUED - *)
(* not on configurations that were in force earlier, and not on which      *)
(* requests were served before.  Formally: there is a function F with      *)
(* reply(h, req) = F(cfg(h), req) for every history h of configuration     *)
(* changes and requests; F is what a server started with cfg(h) answers,   *)
(* and what F must be is the business of the other modules (KetoCheck for  *)
(* checks, Expand for trees, Api for unknown namespaces).                  *)
(*                                                                         *)
(* The model keeps the configuration and the memo a careless implementation*)
(* would keep (Stale = TRUE: per-request-kind memo of the first value of a *)
(* setting that a request of that kind has seen), so that TLC shows the    *)
(* property is not vacuous: with Stale the invariant fails.                *)
(* In generation mode TLC draws histories; the harness replays them on one *)
(* long-lived server and compares every reply with a server that was       *)
(* started with the configuration now in force.                            *)
(***************************************************************************)
EXTENDS Integers, Sequences, FiniteSets, TLC, Json

CONSTANTS Mode,    \* "small" (exhaustive) | "gen"
          Stale,   \* model a server that memoises settings per request kind
          NRuns, NSteps

Depths == {2, 4, 8}
Widths == {2, 100}
NsSets == {{"n", "m"}, {"n"}, {"m"}}
\* the content of namespace n: no relations declared, or r and r2 := r2 or r (a computed-subject-set rewrite)
Contents == {"plain", "rw"}
Keys   == {"depth", "width", "ns", "content"}
Values(k) == CASE k = "depth" -> Depths [] k = "width" -> Widths [] k = "content" -> Contents [] OTHER -> NsSets
Cfg0 == [depth |-> 8, width |-> 100, ns |-> {"n", "m"}, content |-> "plain"]

\* request kinds and the settings their reply depends on
Reqs == {"check_rw", "check_chain_d0", "check_chain_d3", "check_chain_d6", "check_m", "check_wide", "batch_chain_d0", "batch_chain_d6",
         "expand_d0", "expand_d3", "expand_d6", "grpc_check_chain_d0", "grpc_expand_d0", "list_n", "list_m"}
Kind(r) == CASE r \in {"check_rw", "check_chain_d0", "check_chain_d3", "check_chain_d6", "check_m", "check_wide", "grpc_check_chain_d0"} -> "check"
             [] r \in {"batch_chain_d0", "batch_chain_d6"} -> "batch"
             [] r \in {"expand_d0", "expand_d3", "expand_d6", "grpc_expand_d0"} -> "expand"
             [] OTHER -> "list"

VARIABLES cfg,     \* the configuration in force
          memo,    \* Stale only: kind -> the configuration that kind of request saw first
          last,    \* the last step: a record
          hist, steps, run
vars == <<cfg, memo, last, hist, steps, run>>

\* the configuration a request is answered under
Seen(r) == IF Stale /\ Kind(r) \in DOMAIN memo THEN memo[Kind(r)] ELSE cfg

Set(k, v) == /\ cfg' = [cfg EXCEPT ![k] = v] /\ UNCHANGED memo
             /\ last' = [op |-> "set", key |-> k, val |-> v, cfg |-> cfg', used |-> cfg']
Request(r) == /\ UNCHANGED cfg
              /\ memo' = IF Stale /\ Kind(r) \notin DOMAIN memo THEN [x \in DOMAIN memo \cup {Kind(r)} |-> IF x = Kind(r) THEN cfg ELSE memo[x]] ELSE memo
              /\ last' = [op |-> "req", req |-> r, cfg |-> cfg, used |-> Seen(r)]

Init == /\ cfg = Cfg0 /\ memo = [x \in {} |-> Cfg0] /\ last = [op |-> "init", cfg |-> Cfg0, used |-> Cfg0]
        /\ hist = <<>> /\ steps = 0 /\ run \in (IF Mode = "gen" THEN 1..NRuns ELSE {0})

NextSmall == /\ steps < 4 /\ steps' = steps + 1 /\ UNCHANGED <<hist, run>>
             /\ \/ \E k \in Keys : \E v \in Values(k) : Set(k, v)
                \/ \E r \in {"check_chain_d0", "expand_d0", "list_n"} : Request(r)

Pick(S) == {RandomElement(S)}
NextGen == /\ steps < NSteps /\ steps' = steps + 1 /\ run' = run
           /\ \E c \in Pick(1..3) :
                IF c = 1 THEN \E k \in Pick(Keys) : \E v \in Pick(Values(k)) : Set(k, v)
                ELSE \E r \in Pick(Reqs) : Request(r)
           /\ hist' = Append(hist, [op |-> last'.op, req |-> IF last'.op = "req" THEN last'.req ELSE "", key |-> IF last'.op = "set" THEN last'.key ELSE "",
                                    depth |-> last'.cfg.depth, width |-> last'.cfg.width, ns |-> last'.cfg.ns, content |-> last'.cfg.content])
           /\ (steps' = NSteps => PrintT(ToJson([run |-> run, steps |-> hist'])))

Next == IF Mode = "gen" THEN NextGen ELSE NextSmall
Spec == Init /\ [][Next]_vars

\* every request is answered under the configuration in force when it is issued
CurrentConfig == last.op = "req" => last.used = last.cfg
=============================================================================
