----------------------------- MODULE TraceKeto -----------------------------
(***************************************************************************)
(* Trace validation for Keto.tla: the harness (family "overlap") runs the  *)
(* real check engine while relationships are written at scheduled points   *)
(* and records, in the order in which they took effect, every storage read *)
(* of the check (kind, node, what it returned), every write and the        *)
(* answer.  The trace is accepted when every read is an outstanding read   *)
(* of the model that returns, in the model's store, what the real one      *)
(* returned, and the answer is the model's answer.  Many runs are          *)
(* concatenated; a "start" event resets the model to the logged store.     *)
(* After the model has answered, the stragglers of the real check (reads   *)
(* that were already running, writes they let through) are stuttering      *)
(* steps until the answer event.                                           *)
(***************************************************************************)
EXTENDS Keto

CONSTANT TraceFile
Trace == ndJsonDeserialize(TraceFile)
VARIABLE l
tvars == <<vars, l>>

Ev(e) == l <= Len(Trace) /\ Trace[l].ev = e /\ l' = l + 1
E == Trace[l]
ToSet(s) == {s[i] : i \in 1..Len(s)}
Tup(s) == <<s[1], s[2]>>

TInit == Init /\ store = {} /\ l = 1

TStart == /\ Ev("start")
          /\ store' = {Tup(E.store[i]) : i \in 1..Len(E.store)} /\ store' \subseteq Universe
          /\ pc' = "running" /\ tasks' = {"D", "s"} /\ visited' = {} /\ answer' = "none"
          /\ startStore' = store' /\ seenStores' = {store'} /\ kinds' = {} /\ reads' = 0 /\ hist' = <<>> /\ writes' = 0

TDirect == /\ Ev("direct")
           /\ IF pc = "done" THEN UNCHANGED vars
              ELSE Direct /\ E.res = DirectRes(store)

TExpand == /\ Ev("expand")
           /\ IF pc = "done" THEN UNCHANGED vars
              ELSE /\ Expand(E.n) /\ E.found = ExpandFound(store, E.n)
                   /\ ~E.found => ToSet(E.kids) = Kids(store, E.n)

\* reads that fail (context cancelled) are possible only after the answer is determined
TReadErr == Ev("readerr") /\ pc = "done" /\ UNCHANGED vars

TWrite == /\ Ev("write")
          /\ IF pc = "done" THEN UNCHANGED vars
             ELSE LET t == Tup(E.t) IN
                  /\ t \in Universe
                  /\ IF E.kind = "ins" THEN t \notin store /\ store' = store \cup {t} ELSE t \in store /\ store' = store \ {t}
                  /\ seenStores' = seenStores \cup {store'} /\ kinds' = kinds \cup {E.kind}
                  /\ hist' = Append(hist, <<reads, E.kind, t>>) /\ writes' = writes + 1
                  /\ UNCHANGED <<pc, tasks, visited, answer, startStore, reads>>

TAnswer == /\ Ev("answer") /\ pc = "done"
           /\ answer = (IF E.allowed THEN "allowed" ELSE "denied")
           /\ UNCHANGED vars

TNext == TStart \/ TDirect \/ TExpand \/ TReadErr \/ TWrite \/ TAnswer
TSpec == TInit /\ [][TNext]_tvars
Accepted == TLCGet("stats").diameter - 1 = Len(Trace)
=============================================================================
