------------------------------- MODULE Expand -------------------------------
(***************************************************************************)
(* The expand engine (internal/expand/engine.go buildTreeRecursive) as a   *)
(* recursive operator, and what an expand tree must satisfy.               *)
(*                                                                         *)
(* Implementation shape: depth-first, children in storage order, one       *)
(* visited set for the whole request that is tested BEFORE the depth       *)
(* test; a subject set without tuples, or already visited, yields "nil",   *)
(* which the parent turns into a leaf; at remaining depth <= 1 a set with  *)
(* tuples becomes a leaf without children.                                 *)
(*                                                                         *)
(* AsIsVisited = TRUE is the code.  With FALSE the visited set remembers   *)
(* the remaining depth at which a set was expanded and expands it again    *)
(* when reached with more depth left: the design that is complete within   *)
(* the depth (used to show the property is satisfiable).                   *)
(***************************************************************************)
EXTENDS Integers, Sequences, FiniteSets, TLC, Json

CONSTANTS Mode,     \* "cases": all subsets x orders x depths
          Dmax, NumOrds, Emit

Id(u) == <<"id", u>>
SS(o) == <<"set", "n", o, "r">>
Tup(o, s) == <<"n", o, "r", s>>
\* a second relation and the empty relation: a subject set names ONE relation of its object
SSr(o, rel) == <<"set", "n", o, rel>>
TupR(o, rel, s) == <<"n", o, rel, s>>
IsSet(s) == s[1] = "set"

\* chain, diamond, 2- and 3-cycles, self loop, a duplicate, users at several distances
UniverseSeq == << Tup("s", SS("a")), Tup("s", SS("b")), Tup("a", SS("b")), Tup("b", Id("u")), Tup("b", SS("c")),
                  Tup("c", Id("v")), Tup("c", SS("s")), Tup("a", Id("w")), Tup("s", Id("u")), Tup("b", SS("b")),
                  \* the object b referenced with the empty relation (no relationship has it), and b under another relation
                  Tup("s", SSr("b", "")), TupR("b", "q", Id("x")) >>
N == Len(UniverseSeq)
Ident == [i \in 1..N |-> i]
Rev   == [i \in 1..N |-> N + 1 - i]
Evens == SelectSeq(Ident, LAMBDA i : i % 2 = 0) \o SelectSeq(Ident, LAMBDA i : i % 2 = 1)
RevEv == [i \in 1..N |-> Evens[N + 1 - i]]
Ords  == <<Ident, Rev, Evens, RevEv>>

\* wide universes: root with many user children, and a sub-set with 101
WideSeq(n) == [i \in 1..n |-> Tup("s", Id(ToString(i)))] \o <<Tup("s", SS("a"))>> \o [i \in 1..101 |-> Tup("a", Id(ToString(1000 + i)))]

VARIABLES S, oi, depth, wn, done, bad
vars == <<S, oi, depth, wn, done, bad>>

U == IF Mode = "wide" THEN WideSeq(wn) ELSE UniverseSeq
Stored == IF Mode = "wide" THEN 1..Len(U) ELSE S
Order == IF Mode = "wide" THEN [i \in 1..Len(U) |-> i] ELSE Ords[oi]
\* rows of subject set s (by its object) in storage order
RowsOf(s) == LET idx == SelectSeq(Order, LAMBDA i : i \in Stored /\ U[i][2] = s[3] /\ U[i][3] = s[4])
             IN [j \in 1..Len(idx) |-> U[idx[j]]]

NilT == [t |-> "nil"]
Leaf(s) == [t |-> "leaf", s |-> s, ch |-> <<>>]

\* vis: function from visited sets to the remaining depth they were first reached with
RECURSIVE Build(_, _, _, _), Kids(_, _, _, _, _)
Build(asis, s, d, vis) ==
  IF ~IsSet(s) THEN [tree |-> Leaf(s), vis |-> vis]
  ELSE IF s \in DOMAIN vis /\ (asis \/ vis[s] >= d) THEN [tree |-> NilT, vis |-> vis]
  ELSE LET v1 == [x \in (DOMAIN vis) \cup {s} |-> IF x = s THEN d ELSE vis[x]]
           rows == RowsOf(s)
       IN IF rows = <<>> THEN [tree |-> NilT, vis |-> v1]
          ELSE IF d <= 1 THEN [tree |-> Leaf(s), vis |-> v1]
          ELSE LET k == Kids(asis, rows, d, v1, <<>>)
               IN [tree |-> [t |-> "union", s |-> s, ch |-> k.ch], vis |-> k.vis]
Kids(asis, rows, d, vis, acc) ==
  IF rows = <<>> THEN [ch |-> acc, vis |-> vis]
  ELSE LET c == Build(asis, Head(rows)[4], d - 1, vis)
           child == IF c.tree = NilT THEN Leaf(Head(rows)[4]) ELSE c.tree
       IN Kids(asis, Tail(rows), d, c.vis, Append(acc, child))

Root == SS("s")
EmptyVis == [x \in {} |-> 0]
TreeOf(asis, d) == Build(asis, Root, d, EmptyVis).tree

(****************************** tree properties ******************************)
RECURSIVE Leaves(_), Height(_), Edges(_), Expanded(_)
Leaves(tr) == IF tr.t = "nil" THEN {} ELSE IF tr.ch = <<>> THEN {tr.s} ELSE UNION {Leaves(tr.ch[i]) : i \in 1..Len(tr.ch)}
Height(tr) == IF tr.t = "nil" THEN 0 ELSE IF tr.ch = <<>> THEN 1
              ELSE 1 + (CHOOSE m \in {Height(tr.ch[i]) : i \in 1..Len(tr.ch)} : \A j \in 1..Len(tr.ch) : Height(tr.ch[j]) <= m)
Edges(tr) == IF tr.t = "nil" \/ tr.ch = <<>> THEN {}
             ELSE {<<tr.s, tr.ch[i].s>> : i \in 1..Len(tr.ch)} \cup UNION {Edges(tr.ch[i]) : i \in 1..Len(tr.ch)}
\* sequence of subject sets that appear with children (expanded), with repetitions
Expanded(tr) == IF tr.t = "nil" \/ tr.ch = <<>> THEN <<>>
                ELSE LET RECURSIVE Cat(_)
                         Cat(i) == IF i > Len(tr.ch) THEN <<>> ELSE Expanded(tr.ch[i]) \o Cat(i + 1)
                     IN <<tr.s>> \o Cat(1)

StoredTuples == {U[i] : i \in Stored}
\* subjects within k edges of set s
RECURSIVE Reach(_, _)
Reach(s, k) == IF k = 0 \/ ~IsSet(s) THEN {}
               ELSE LET direct == {t[4] : t \in {x \in StoredTuples : x[2] = s[3] /\ x[3] = s[4]}}
                    IN direct \cup UNION {Reach(x, k - 1) : x \in direct}
Users(X) == {x \in X : ~IsSet(x)}

\* every parent -> child edge is a stored relationship
EdgesAreTuples(tr) == \A e \in Edges(tr) : TupR(e[1][3], e[1][4], e[2]) \in StoredTuples
ExpandedOnce(tr) == LET ex == Expanded(tr) IN \A i, j \in 1..Len(ex) : i # j => ex[i] # ex[j]
DepthBound(tr, d) == Height(tr) <= d
LeavesSound(tr) == Users(Leaves(tr)) \subseteq Users(Reach(Root, N + 2))
\* every subject within the depth appears (as a leaf or as an inner node)
RECURSIVE Nodes(_)
Nodes(tr) == IF tr.t = "nil" THEN {} ELSE {tr.s} \cup UNION {Nodes(tr.ch[i]) : i \in 1..Len(tr.ch)}
Complete(tr, d) == Reach(Root, d - 1) \subseteq Nodes(tr)

Props(tr, d) == [edges |-> EdgesAreTuples(tr), once |-> ExpandedOnce(tr), depth |-> DepthBound(tr, d),
                 sound |-> LeavesSound(tr), complete |-> Complete(tr, d)]

Init ==
  /\ S \in (IF Mode = "wide" THEN {{}} ELSE SUBSET (1..N))
  /\ oi \in (IF Mode = "wide" THEN {1} ELSE 1..NumOrds)
  /\ depth \in (IF Mode = "wide" THEN {2, 3} ELSE 1..Dmax)
  /\ wn \in (IF Mode = "wide" THEN {99, 100, 101, 201} ELSE {0})
  /\ done = FALSE /\ bad = {}

Next ==
  /\ ~done /\ done' = TRUE /\ UNCHANGED <<S, oi, depth, wn>>
  /\ LET asis == TreeOf(TRUE, depth)
         ideal == TreeOf(FALSE, depth)
         pa == Props(asis, depth)
         pi == Props(ideal, depth)
     IN /\ bad' = (IF pa.edges /\ pa.depth /\ pa.sound /\ pa.once THEN {} ELSE {"asis"})
                  \cup (IF pi.edges /\ pi.depth /\ pi.sound /\ pi.complete THEN {} ELSE {"ideal"})
        /\ Emit => PrintT(ToJson([s |-> S, o |-> oi, d |-> depth, wn |-> wn,
                                  tuples |-> IF Mode = "wide" THEN <<>> ELSE [j \in 1..Len(Order) |-> IF Order[j] \in Stored THEN U[Order[j]] ELSE <<>>],
                                  tree |-> IF Mode = "wide" THEN [t |-> "omitted"] ELSE asis,
                                  nleaves |-> Cardinality(Leaves(asis)), nch |-> IF asis.t = "nil" THEN 0 ELSE Len(asis.ch),
                                  complete |-> pa.complete,
                                  reachd |-> IF Mode = "wide" THEN {} ELSE Reach(Root, depth - 1),
                                  reachall |-> IF Mode = "wide" THEN {} ELSE Users(Reach(Root, N + 2))]))
Spec == Init /\ [][Next]_vars

\* the code's tree is sound, bounded and expands each set once; the depth-aware design is also complete
DesignHolds == bad = {}
=============================================================================
