------------------------------ MODULE Traverse ------------------------------
(***************************************************************************)
(* The two paging loops below the check engine:                            *)
(*  - TraverseSubjectSetExpansion (internal/persistence/sql/traverser.go): *)
(*    subject-set rows of a node in shard order, PS rows per statement     *)
(*    (1000 in the code), each row with a flag "the subject is a direct    *)
(*    member of that set"; rows are accumulated over pages and the scan    *)
(*    stops right after the first found row;                               *)
(*  - the tuple-to-subject-set listing (rewrites.go) through               *)
(*    GetRelationTuples, PL rows per page (100 in the code).               *)
(* Specified result: every subject-set row up to and including the first   *)
(* found one (all rows if none is found), in storage order, each once.     *)
(***************************************************************************)
EXTENDS Integers, Sequences, FiniteSets, TLC, Json

CONSTANTS Mode,    \* "small": all found-patterns up to MaxN rows with page size PS; "sizes": expectations for the real page size
          MaxN, PS

\* rows are 1..n in storage order; found is the set of rows whose set directly contains the subject
RECURSIVE Scan(_, _, _, _)
\* one statement: rows with id > last, at most PS; stop at the first found row
Scan(n, found, last, acc) ==
  LET page == [i \in 1..(IF n - last < PS THEN n - last ELSE PS) |-> last + i]
      RECURSIVE Take(_, _)
      Take(i, a) == IF i > Len(page) THEN [acc |-> a, hit |-> FALSE]
                    ELSE IF page[i] \in found THEN [acc |-> Append(a, page[i]), hit |-> TRUE]
                    ELSE Take(i + 1, Append(a, page[i]))
      t == Take(1, acc)
  IN IF t.hit THEN t.acc
     ELSE IF Len(page) = PS THEN Scan(n, found, page[PS], t.acc)
     ELSE t.acc

\* the same loop when the k-th statement fails: the whole traversal fails (no partial result is handed to the engine)
Err == <<-1>>
RECURSIVE ScanF(_, _, _, _, _, _)
ScanF(n, found, last, acc, stmt, failAt) ==
  IF stmt = failAt THEN Err
  ELSE LET page == [i \in 1..(IF n - last < PS THEN n - last ELSE PS) |-> last + i]
           RECURSIVE Take(_, _)
           Take(i, a) == IF i > Len(page) THEN [acc |-> a, hit |-> FALSE]
                         ELSE IF page[i] \in found THEN [acc |-> Append(a, page[i]), hit |-> TRUE]
                         ELSE Take(i + 1, Append(a, page[i]))
           t == Take(1, acc)
       IN IF t.hit THEN t.acc
          ELSE IF Len(page) = PS THEN ScanF(n, found, page[PS], t.acc, stmt + 1, failAt)
          ELSE t.acc
\* C03 at this layer: under a failing statement the traversal is an error or the complete fault-free result, never a prefix of it
FaultClosedFor(n, found) == \A k \in 1..(n \div PS + 2) : ScanF(n, found, 0, <<>>, 1, k) \in {Err, Scan(n, found, 0, <<>>)}

FirstFound(n, found) == IF found \cap (1..n) = {} THEN n ELSE CHOOSE m \in found \cap (1..n) : \A x \in found \cap (1..n) : m <= x
Expected(n, found) == [i \in 1..FirstFound(n, found) |-> i]
Correct(n, found) == Scan(n, found, 0, <<>>) = Expected(n, found)

VARIABLES n, found, done
vars == <<n, found, done>>
SizesN == {0, 1, 999, 1000, 1001, 1999, 2000, 2001}
Init == /\ IF Mode = "small" THEN n \in 0..MaxN /\ found \in SUBSET (1..n)
           ELSE n \in SizesN /\ found \in {{}, {1}, {n}, {n \div 2}, {1000}, {1001}} /\ found \subseteq 1..n
        /\ done = FALSE
Next == /\ ~done /\ done' = TRUE /\ UNCHANGED <<n, found>>
        /\ PrintT(ToJson([n |-> n, found |-> found, count |-> Len(Scan(n, found, 0, <<>>)),
                          last |-> IF n = 0 THEN 0 ELSE Scan(n, found, 0, <<>>)[Len(Scan(n, found, 0, <<>>))]]))
Spec == Init /\ [][Next]_vars
ScanCorrect == Correct(n, found)
FaultClosed == FaultClosedFor(n, found)
=============================================================================
