---------------------------- MODULE CheckCases ----------------------------
(***************************************************************************)
(* Case families for the check engine and the generator / exhaustive      *)
(* checker over them.  One TLC state = one (family, mode, stored subset,   *)
(* storage order); its single successor evaluates every query at every     *)
(* width and depth with RefSem and with the engine model in its different  *)
(* flag settings, checks the design-level claims and prints the oracle     *)
(* line that the Go harness replays against the real engine.               *)
(***************************************************************************)
EXTENDS KetoCheck, Json, Randomization

CONSTANTS FamName,      \* which family
          StrictSet,    \* subset of BOOLEAN
          Widths,       \* sequence of max-width values
          Dmax,         \* depths 1..Dmax
          NumOrds,      \* how many storage orders (1..4)
          Sample,       \* 0 = every stored subset, k > 0 = k subsets drawn with TLC's seeded RNG
          Emit          \* print oracle lines

(***************************************************************************)
(* Families.  Rewrites are written in the shape the OPL parser produces:   *)
(* "a && b" is And[Or[a], b]; a single operand is Or[x].                   *)
(***************************************************************************)
FamRw ==
  [cfg |-> [
     U |-> [x \in {} |-> Rel(<<>>, None)],
     G |-> [m |-> Rel(<<<<"U","">>, <<"G","m">>>>, None)],
     D |-> [a |-> Rel(<<<<"U","">>, <<"G","m">>>>, None), b |-> Rel(<<<<"U","">>, <<"G","m">>>>, None), par |-> Rel(<<<<"D","">>>>, None),
            both   |-> Permit(And(<<Or(<<CSS("a")>>), CSS("b")>>)),
            either |-> Permit(Or(<<CSS("a"), CSS("b")>>)),
            nota   |-> Permit(Or(<<Not(CSS("a"))>>)),
            anb    |-> Permit(And(<<Or(<<CSS("a")>>), Not(CSS("b"))>>)),
            viapar |-> Permit(Or(<<TTU("par", "a")>>))],
     R |-> [v |-> Rel(<<<<"U","">>, <<"D","both">>, <<"D","nota">>>>, None)]],
   U |-> << Tup("R","r","v", SS("D","d","both")), Tup("R","r","v", SS("D","d","nota")),
            Tup("D","d","a", SS("G","g","m")), Tup("D","d","b", SS("G","g","m")),
            Tup("G","g","m", SS("G","h","m")), Tup("G","h","m", Id("u")), Tup("G","h","m", SS("G","g","m")),
            Tup("D","d","a", Id("u")), Tup("D","d","par", SS("D","p","")), Tup("D","p","a", SS("G","g","m")) >>,
   Q |-> << Tup("R","r","v", Id("u")), Tup("D","d","both", Id("u")), Tup("D","d","nota", Id("u")),
            Tup("D","d","anb", Id("u")), Tup("D","d","either", Id("u")), Tup("D","d","viapar", Id("u")) >>]

FamNest ==
  [cfg |-> [
     U |-> [x \in {} |-> Rel(<<>>, None)],
     G |-> [m |-> Rel(<<<<"U","">>, <<"G","m">>>>, None)],
     D |-> [a |-> Rel(<<<<"U","">>, <<"G","m">>>>, None), b |-> Rel(<<<<"U","">>, <<"G","m">>>>, None), c |-> Rel(<<<<"U","">>, <<"G","m">>>>, None),
            p1 |-> Permit(And(<<Or(<<Or(<<CSS("a")>>), CSS("b")>>), Not(CSS("c"))>>)),     \* (a || b) && !c
            p2 |-> Permit(Or(<<Not(And(<<Or(<<CSS("a")>>), CSS("b")>>))>>)),       \* !(a && b)
            p3 |-> Permit(Or(<<CSS("a"), And(<<Or(<<CSS("b")>>), CSS("c")>>)>>)),  \* a || (b && c)
            p4 |-> Permit(And(<<Or(<<CSS("p3")>>), Not(CSS("p1"))>>)),            \* permits.p3 && !permits.p1
            p5 |-> Permit(Or(<<Not(Or(<<Or(<<CSS("a")>>), And(<<Or(<<CSS("b")>>), CSS("c")>>)>>))>>)),
            p6 |-> Permit(Or(<<Not(Not(CSS("c")))>>)),
            \* a union of a permission and a plain relation, in both operand orders (|| is commutative)
            p7 |-> Permit(Or(<<CSS("p3"), CSS("c")>>)),
            p8 |-> Permit(Or(<<CSS("c"), CSS("p3")>>))],  \* !(a || (b && c)): an intersection below a union below a negation
            \* (p6 below: a negation directly below a negation)
     R |-> [v |-> Rel(<<<<"U","">>, <<"D","p1">>, <<"D","p2">>>>, None)]],
   U |-> << Tup("D","d","a", Id("u")), Tup("D","d","b", SS("G","g","m")), Tup("D","d","c", SS("G","h","m")),
            Tup("G","g","m", Id("u")), Tup("G","g","m", SS("G","h","m")), Tup("G","h","m", Id("u")),
            Tup("D","d","a", SS("G","h","m")), Tup("R","r","v", SS("D","d","p1")), Tup("R","r","v", SS("D","d","p2")) >>,
   Q |-> << Tup("D","d","p1", Id("u")), Tup("D","d","p2", Id("u")), Tup("D","d","p3", Id("u")),
            Tup("D","d","p4", Id("u")), Tup("R","r","v", Id("u")), Tup("D","d","p3", Id("w")), Tup("D","d","p5", Id("u")), Tup("D","d","p6", Id("u")),
            Tup("D","d","p7", Id("u")), Tup("D","d","p8", Id("u")) >>]

FamPlain ==
  [cfg |-> [n |-> [x \in {} |-> Rel(<<>>, None)]],
   U |-> << Tup("n","s","r", SS("n","a","r")), Tup("n","s","r", SS("n","b","r")),
            Tup("n","a","r", SS("n","c","r")), Tup("n","b","r", SS("n","c","r")),
            Tup("n","c","r", Id("u")), Tup("n","c","r", SS("n","s","r")),
            Tup("n","a","r", SS("n","a","r")), Tup("n","c","r", Id("u")), Tup("n","b","r", Id("v")) >>,
   Q |-> << Tup("n","s","r", Id("u")), Tup("n","s","r", Id("v")), Tup("n","a","r", Id("u")),
            Tup("n","s","r", SS("n","c","r")), Tup("n","x","r", Id("u")), Tup("n","s","q", Id("u")) >>]

FamRec ==
  [cfg |-> [
     U |-> [x \in {} |-> Rel(<<>>, None)],
     G |-> [m |-> Rel(<<<<"U","">>, <<"G","m">>>>, None)],
     F |-> [parents |-> Rel(<<<<"F","">>>>, None), viewers |-> Rel(<<<<"U","">>, <<"G","m">>>>, None),
            view |-> Permit(Or(<<CSS("viewers"), TTU("parents", "view")>>)),
            edit |-> Permit(And(<<Or(<<CSS("view")>>), Not(TTU("parents", "viewers"))>>))]],
   U |-> << Tup("F","a","parents", SS("F","b","")), Tup("F","b","parents", SS("F","c","")),
            Tup("F","c","viewers", Id("u")), Tup("F","b","viewers", SS("G","g","m")),
            Tup("G","g","m", Id("u")), Tup("F","c","parents", SS("F","a","")),
            Tup("F","a","viewers", Id("v")), Tup("G","g","m", SS("G","g","m")), Tup("F","a","parents", SS("F","c","")) >>,
   Q |-> << Tup("F","a","view", Id("u")), Tup("F","a","view", Id("v")), Tup("F","b","view", Id("u")),
            Tup("F","a","edit", Id("u")), Tup("F","c","view", Id("u")), Tup("F","a","viewers", Id("u")) >>]

\* tuples that do not conform to the declared types: strict mode may differ there
FamStrictX ==
  [cfg |-> FamRw.cfg,
   U |-> << Tup("D","d","both", Id("u")), Tup("D","d","par", SS("G","g","m")), Tup("G","g","m", Id("u")),
            Tup("D","d","a", SS("G","g","m")), Tup("D","d","b", Id("u")), Tup("R","r","v", SS("D","d","both")),
            Tup("D","d","either", SS("G","g","m")), Tup("D","d","par", SS("D","p","")), Tup("D","p","a", Id("u")) >>,
   Q |-> << Tup("D","d","both", Id("u")), Tup("D","d","either", Id("u")), Tup("R","r","v", Id("u")),
            Tup("D","d","par", Id("u")), Tup("D","d","viapar", Id("u")), Tup("D","d","anb", Id("u")) >>]

\* visited keys: (ns "a-b", rel "c") and (ns "a", rel "b-c") on one object
FamAlias ==
  [cfg |-> [x |-> [y \in {} |-> Rel(<<>>, None)], a |-> [y \in {} |-> Rel(<<>>, None)],
            ab |-> [y \in {} |-> Rel(<<>>, None)]],
   U |-> << Tup("x","s","r", SS("a-b","o","c")), Tup("x","s","r", SS("a","o","b-c")),
            Tup("a","o","b-c", SS("a","p","q")), Tup("a","p","q", Id("u")),
            Tup("a-b","o","c", SS("a","p","z")), Tup("a","p","z", Id("v")), Tup("x","s","r", SS("a","o","b")) >>,
   Q |-> << Tup("x","s","r", Id("u")), Tup("x","s","r", Id("v")) >>]

\* the check-wide visited set against storage order: a node whose subject sets are listed as [already visited, not yet visited],
\* with the only granting path two hops below the later one (diamond 1-2-3-4, self loop 8, back edge 9)
FamDiam ==
  [cfg |-> [n |-> [x \in {} |-> Rel(<<>>, None)]],
   U |-> << Tup("n","s","r", SS("n","a","r")), Tup("n","s","r", SS("n","b","r")),
            Tup("n","a","r", SS("n","b","r")), Tup("n","a","r", SS("n","c","r")),
            Tup("n","c","r", SS("n","d","r")), Tup("n","d","r", Id("u")),
            Tup("n","b","r", SS("n","c","r")), Tup("n","a","r", SS("n","a","r")), Tup("n","c","r", SS("n","a","r")) >>,
   Q |-> << Tup("n","s","r", Id("u")), Tup("n","a","r", Id("u")), Tup("n","b","r", Id("u")), Tup("n","s","r", Id("w")) >>]

\* traverse() over a relation whose parents live in two namespaces and share an object name (the object id does not identify a parent)
FamTtu2 ==
  [cfg |-> [
     U |-> [x \in {} |-> Rel(<<>>, None)],
     E |-> [a |-> Rel(<<<<"U","">>>>, None)],
     D |-> [a |-> Rel(<<<<"U","">>>>, None), par |-> Rel(<<<<"D","">>, <<"E","">>>>, None),
            viapar |-> Permit(Or(<<TTU("par", "a")>>)),
            notpar |-> Permit(Or(<<Not(TTU("par", "a"))>>)),
            \* a deny list over a relation that can only hold subject ids: in strict mode the direct lookup is the ONLY storage call
            na |-> Permit(Or(<<Not(CSS("a"))>>))]],
   U |-> << Tup("D","d","par", SS("D","x","")), Tup("D","d","par", SS("E","x","")),
            Tup("D","x","a", Id("u")), Tup("E","x","a", Id("v")), Tup("E","x","a", Id("u")),
            Tup("D","d","par", SS("E","y","")), Tup("E","y","a", Id("w")) >>,
   Q |-> << Tup("D","d","viapar", Id("u")), Tup("D","d","viapar", Id("v")), Tup("D","d","viapar", Id("w")), Tup("D","d","notpar", Id("v")),
            Tup("D","x","na", Id("u")), Tup("D","x","na", Id("v")) >>]

\* permissions that call each other in a cycle (no negation on the cycle): least fixpoint, and the evaluation must end
FamCyc ==
  [cfg |-> [
     U |-> [x \in {} |-> Rel(<<>>, None)],
     D |-> [x |-> Rel(<<<<"U","">>>>, None), y |-> Rel(<<<<"U","">>>>, None),
            a |-> Permit(And(<<Or(<<CSS("b")>>), CSS("x")>>)),     \* a = b && x
            b |-> Permit(And(<<Or(<<CSS("a")>>), CSS("x")>>)),     \* b = a && x
            c |-> Permit(Or(<<CSS("e"), CSS("x")>>)),              \* c = e || x
            e |-> Permit(Or(<<CSS("c"), CSS("y")>>)),             \* e = c || y
            \* cycles through an operand of && other than the first, and below a negation (the engine builds these eagerly)
            f |-> Permit(And(<<Or(<<CSS("x")>>), CSS("f")>>)),     \* f = x && f
            g |-> Permit(And(<<Or(<<CSS("x")>>), CSS("h")>>)),     \* g = x && h
            h |-> Permit(And(<<Or(<<CSS("x")>>), CSS("g")>>)),     \* h = x && g
            ng |-> Permit(Or(<<Not(CSS("g"))>>))]],                \* ng = !g
   U |-> << Tup("D","d","x", Id("u")), Tup("D","d","y", Id("v")), Tup("D","d","x", Id("w")), Tup("D","d","y", Id("w")) >>,
   Q |-> << Tup("D","d","a", Id("u")), Tup("D","d","b", Id("u")), Tup("D","d","c", Id("u")), Tup("D","d","e", Id("u")),
            Tup("D","d","c", Id("v")), Tup("D","d","e", Id("z")),
            Tup("D","d","f", Id("u")), Tup("D","d","g", Id("u")), Tup("D","d","ng", Id("u")) >>]

\* operands declared most-expensive-first (traverse before includes, a negation or a parenthesised group before a plain
\* relation): || and && are commutative, so whatever order an implementation evaluates them in, the answers are those of RefSem
FamOrd ==
  [cfg |-> [
     U |-> [x \in {} |-> Rel(<<>>, None)],
     G |-> [m |-> Rel(<<<<"U","">>, <<"G","m">>>>, None)],
     D |-> [a |-> Rel(<<<<"U","">>, <<"G","m">>>>, None), b |-> Rel(<<<<"U","">>, <<"G","m">>>>, None), par |-> Rel(<<<<"D","">>>>, None),
            tb  |-> Permit(Or(<<TTU("par", "a"), CSS("b")>>)),                                          \* par.a || b
            nba |-> Permit(And(<<Or(<<Not(CSS("b"))>>), CSS("a")>>)),                                   \* !b && a
            gab |-> Permit(Or(<<And(<<Or(<<CSS("a")>>), CSS("b")>>), CSS("a")>>)),                      \* (a && b) || a
            tnb |-> Permit(And(<<Or(<<TTU("par", "b")>>), Not(CSS("a")), CSS("b")>>)),                  \* par.b && !a && b
            onb |-> Permit(Or(<<Not(CSS("a")), TTU("par", "b"), CSS("b")>>))]],                         \* !a || par.b || b
   U |-> << Tup("D","d","a", Id("u")), Tup("D","d","b", SS("G","g","m")), Tup("G","g","m", Id("u")),
            Tup("D","d","par", SS("D","p","")), Tup("D","p","a", Id("u")), Tup("D","p","b", SS("G","g","m")),
            Tup("D","d","b", Id("u")), Tup("D","d","a", SS("G","g","m")) >>,
   Q |-> << Tup("D","d","tb", Id("u")), Tup("D","d","nba", Id("u")), Tup("D","d","gab", Id("u")),
            Tup("D","d","tnb", Id("u")), Tup("D","d","onb", Id("u")), Tup("D","d","tb", Id("w")) >>]

\* checks whose SUBJECT is a subject set, on relations that are declared to hold subject sets only: the relationship
\* D:d#only@(G:g#m) is a direct relationship that only the direct lookup finds
FamSsq ==
  [cfg |-> [
     U |-> [x \in {} |-> Rel(<<>>, None)],
     G |-> [m |-> Rel(<<<<"U","">>, <<"G","m">>>>, None)],
     D |-> [only |-> Rel(<<<<"G","m">>>>, None), blocked |-> Rel(<<<<"G","m">>>>, None), par |-> Rel(<<<<"D","">>>>, None),
            read    |-> Permit(And(<<Or(<<CSS("only")>>), Not(CSS("blocked"))>>)),        \* only && !blocked
            viaonly |-> Permit(Or(<<TTU("par", "only")>>))]],
   U |-> << Tup("D","d","only", SS("G","g","m")), Tup("D","d","only", SS("G","h","m")), Tup("D","d","blocked", SS("G","h","m")),
            Tup("G","g","m", Id("u")), Tup("G","g","m", SS("G","h","m")), Tup("D","d","par", SS("D","p","")),
            Tup("D","p","only", SS("G","g","m")), Tup("G","h","m", Id("v")) >>,
   Q |-> << Tup("D","d","only", SS("G","g","m")), Tup("D","d","read", SS("G","g","m")), Tup("D","d","read", SS("G","h","m")),
            Tup("D","d","viaonly", SS("G","g","m")), Tup("D","d","only", Id("u")), Tup("D","d","read", Id("v")),
            Tup("D","d","only", SS("G","h","m")) >>]

Fams == [ssq |-> FamSsq, ord |-> FamOrd, cyc |-> FamCyc, ttu2 |-> FamTtu2, diam |-> FamDiam, rw |-> FamRw, nest |-> FamNest, plain |-> FamPlain, rec |-> FamRec, strictx |-> FamStrictX, alias |-> FamAlias]
\* the alias family's namespaces carry a '-' and cannot be record fields
CfgOf(f) == IF f = "alias" THEN [n \in {"x", "a", "a-b"} |-> [y \in {} |-> Rel(<<>>, None)]] ELSE Fams[f].cfg
W_2 == <<1, 100>>
W_3 == <<1, 2, 100>>
W_4 == <<1, 2, 3, 100>>
Legacy == FamName \in {"plain", "alias", "diam"}   \* namespaces given as AST (no OPL text, no strict mode)
Fam == Fams[FamName]
N == Len(Fam.U)

Ident  == [i \in 1..N |-> i]
Rev    == [i \in 1..N |-> N + 1 - i]
Evens  == SelectSeq(Ident, LAMBDA i : i % 2 = 0) \o SelectSeq(Ident, LAMBDA i : i % 2 = 1)
RevEv  == [i \in 1..N |-> Evens[N + 1 - i]]
Ords   == <<Ident, Rev, Evens, RevEv>>

VARIABLES S, oi, strict, done, bad
vars == <<S, oi, strict, done, bad>>

KBase(SS_, o, st, w) ==
  [cfg |-> CfgOf(FamName), strict |-> st, U |-> Fam.U, S |-> SS_, ord |-> Ords[o], w |-> w,
   vm |-> "scoped", coll |-> TRUE, sc |-> TRUE, fk |-> 0, alias |-> FALSE]

Code(r) == IF r.e THEN "E" ELSE CASE r.m = "is" -> "I" [] r.m = "not" -> "N" [] OTHER -> "U"
RECURSIVE Cat(_)
Cat(s) == IF s = <<>> THEN "" ELSE Head(s) \o Cat(Tail(s))
Ds == [d \in 1..Dmax |-> d]

\* per (query, width): strings indexed by depth
Line(K, q) ==
  [a  |-> Cat([d \in 1..Dmax |-> Code(Engine(AsIs(K), q, d).r)]),
   i  |-> Cat([d \in 1..Dmax |-> Code(Engine(Ideal(K), q, d).r)]),
   sh |-> Cat([d \in 1..Dmax |-> Code(Engine(Shared(K), q, d).r)]),
   nb |-> Cat([d \in 1..Dmax |-> IF NotBinding(K, q, d) /\ ~SchemaErr(K, q, d) THEN "1" ELSE "0"]),
   mc |-> [d \in 1..Dmax |-> MaxCalls(K, q, d)],
   nc |-> [d \in 1..Dmax |-> Engine(AsIs(K), q, d).st.n]]

(***************************************************************************)
(* Design-level claims, checked on every case (TLC evaluates them in Next; *)
(* a FALSE makes the run fail with the offending state).                   *)
(***************************************************************************)
\* C01: with limits not binding the (repaired) engine equals RefSem; on
\* conforming stores also in strict mode.
ClaimEqual(K, q, d) ==
  (NotBinding(K, q, d) /\ ~SchemaErr(K, q, d) /\ (~K.strict \/ Conforms(K)))
     => LET r == Engine(AsIs(K), q, d).r IN ~r.e /\ ((r.m = "is") <=> RefSem(K, q))
\* C02: the three-valued engine never allows what RefSem denies, whatever the limits
ClaimFailClosed(K, q, d) ==
  LET r == Engine(Ideal(K), q, d).r IN (r.m = "is" /\ ~r.e) => RefSem(K, q)
\* C02: on conforming stores the collapsing engine is fail-closed when no negation is involved
\* C15: a short-circuit run never issues more storage calls than the exhaustive one
ClaimCalls(K, q, d) == Engine(AsIs(K), q, d).st.n <= MaxCalls(K, q, d)
\* monotonicity of the binding predicate: a limit that is not binding stays so when raised
ClaimNbMono(K, q, d) == (d < Dmax /\ NotBinding(K, q, d)) => NotBinding(K, q, d + 1)
\* RefSem self-check against the stratified fixpoint
ClaimFix(K, q) == RefSem(K, q) = RefSemFix(K, q)

Claims(K, q) ==
  /\ ClaimFix(K, q)
  /\ \A d \in 1..Dmax : /\ ClaimEqual(K, q, d) /\ ClaimFailClosed(K, q, d)
                        /\ ClaimCalls(K, q, d) /\ ClaimNbMono(K, q, d)

ASSUME Stratified(KBase({}, 1, FALSE, 100))

\* stored subsets that are always explored: the witnesses of recorded findings and repairs
Witness == CASE FamName = "rw"    -> {{2, 8}, {1, 3, 4, 5, 6}, {2, 3, 5, 6}}
             [] FamName = "alias" -> {{1, 2, 3, 4}, {1, 2, 5, 6}}
             [] FamName = "rec"   -> {{1, 2, 3}, {1, 3, 6, 9}}
             [] FamName = "nest"  -> {{2, 3, 4, 6}, {1, 3, 6}, {2, 4, 6}}    \* p5 denied through b && c only; p1 denied through c; b without c
             [] FamName = "ssq"   -> {{1, 3, 4}, {1, 2, 3, 5, 8}, {6, 7}}
             [] FamName = "ord"   -> {{2, 3, 4, 6}, {1, 4, 5}, {3, 4, 6, 7}}
             [] FamName = "ttu2"  -> {{1, 2, 3, 4}, {1, 2, 4}, {1, 2, 3, 4, 5, 6, 7}}
             [] FamName = "diam"  -> {{1, 2, 3, 4, 5, 6}, {1, 4, 5, 6, 8}, {1, 2, 3, 4, 5, 6, 9}}
             [] OTHER -> {}
Subsets == IF Sample = 0 THEN SUBSET (1..N) ELSE RandomSubset(Sample, SUBSET (1..N)) \cup {{}, 1..N} \cup Witness
Init == S \in Subsets /\ oi \in 1..NumOrds /\ strict \in (IF Legacy THEN {FALSE} ELSE StrictSet) /\ done = FALSE /\ bad = {}

Next ==
  /\ ~done /\ done' = TRUE /\ UNCHANGED <<S, oi, strict>>
  /\ bad' = {<<wi, qi>> \in (1..Len(Widths)) \X (1..Len(Fam.Q)) :
                  ~Claims(KBase(S, oi, strict, Widths[wi]), Fam.Q[qi])}
  /\ Emit => PrintT(ToJson(
       [f |-> FamName, st |-> strict, s |-> S, o |-> oi,
        conf |-> Conforms(KBase(S, oi, strict, 100)),
        q |-> [qi \in 1..Len(Fam.Q) |->
                 [ref |-> RefSem(KBase(S, oi, strict, 100), Fam.Q[qi]),
                  w |-> [wi \in 1..Len(Widths) |-> Line(KBase(S, oi, strict, Widths[wi]), Fam.Q[qi])]]]]))
  /\ (Emit /\ S = {} /\ oi = 1 /\ ~strict) =>
        PrintT(ToJson([def |-> FamName, legacy |-> Legacy, cfg |-> CfgOf(FamName), U |-> Fam.U, Q |-> Fam.Q,
                       ords |-> SubSeq(Ords, 1, NumOrds), widths |-> Widths, dmax |-> Dmax]))

Spec == Init /\ [][Next]_vars
ClaimsHold == bad = {}
=============================================================================
