package zzverif

import (
	"context"
	"encoding/json"
	"fmt"
	"net/url"
	"sync"
	"testing"

	"github.com/ory/keto/ketoapi"
	rts "github.com/ory/keto/proto/ory/keto/relation_tuples/v1alpha2"
)

// C14: the same requests concurrently (on a registry that has served nothing
// yet, so that the lazily created singletons are hit) and alone.

type concIn struct {
	Def     *famDef  `json:"def"`
	States  [][]int  `json:"states"`
	Queries []jtuple `json:"queries"`
	Rounds  int      `json:"rounds"`
	Par     int      `json:"par"`
}

type concReq struct {
	kind  string
	q     *ketoapi.RelationTuple
	depth int // max-depth of the request (0 = default)
}

func (e *storeEnv) concDo(r concReq) string {
	defer func() { recover() }()
	ctx := context.Background()
	switch r.kind {
	case "rest_check":
		qs := r.q.ToURLQuery()
		if r.depth > 0 {
			qs.Set("max-depth", fmt.Sprint(r.depth))
		}
		code, body := e.do("A", e.rr, "GET", "/relation-tuples/check/openapi?"+qs.Encode(), nil)
		return fmt.Sprintf("%d %s", code, body)
	case "rest_batch":
		b, _ := json.Marshal(map[string]any{"tuples": []*ketoapi.RelationTuple{r.q, r.q}})
		code, body := e.do("A", e.rr, "POST", "/relation-tuples/batch/check", b)
		return fmt.Sprintf("%d %s", code, body)
	case "rest_expand":
		q := url.Values{"namespace": {r.q.Namespace}, "object": {r.q.Object}, "relation": {r.q.Relation}, "max-depth": {"4"}}
		code, body := e.do("A", e.rr, "GET", "/relation-tuples/expand?"+q.Encode(), nil)
		return fmt.Sprintf("%d %s", code, body)
	case "rest_list":
		q := url.Values{"namespace": {r.q.Namespace}, "page_size": {"3"}}
		out := ""
		for {
			code, body := e.do("A", e.rr, "GET", "/relation-tuples?"+q.Encode(), nil)
			var resp ketoapi.GetResponse
			json.Unmarshal(body, &resp)
			out += fmt.Sprintf("%d:", code)
			for _, t := range resp.RelationTuples {
				out += t.String() + ";"
			}
			if resp.NextPageToken == "" || code != 200 {
				return out
			}
			q.Set("page_token", resp.NextPageToken)
		}
	case "grpc_check":
		resp, err := e.ch.Check(ctx, &rts.CheckRequest{Tuple: r.q.ToProto(), MaxDepth: int32(r.depth)})
		if err != nil {
			return "err " + err.Error()
		}
		return fmt.Sprint(resp.Allowed)
	case "grpc_list":
		resp, err := e.rt.ListRelationTuples(ctx, &rts.ListRelationTuplesRequest{RelationQuery: &rts.RelationQuery{Namespace: &r.q.Namespace}})
		if err != nil {
			return "err " + err.Error()
		}
		out := ""
		for _, t := range resp.RelationTuples {
			out += (&ketoapi.RelationTuple{}).FromProto(t).String() + ";"
		}
		return out
	}
	return "?"
}

func init() { families["conc"] = famConc }

func famConc(t *testing.T) {
	var in concIn
	readJSON(*fIn, &in)
	out := newNDWriter(*fOut)
	defer out.close()
	si, sn := shard()
	kinds := []string{"rest_check", "rest_batch", "rest_expand", "rest_list", "grpc_check", "grpc_list"}
	for round := 0; round < in.Rounds; round++ {
		if round%sn != si {
			continue
		}
		S := in.States[round%len(in.States)]
		t.Run(fmt.Sprintf("r%d", round), func(t *testing.T) {
			reg := newRegistry(t, regOpts{opl: in.Def.Cfg.opl(), gdepth: 8})
			var stored []*ketoapi.RelationTuple
			for _, i := range S {
				stored = append(stored, in.Def.U[i-1].api())
			}
			// written through the persister directly: the registry's lazy getters stay untouched
			writeOrderedRaw(t, reg, stored)
			e := envFor(t, reg)
			var reqs []concReq
			for i := 0; i < in.Par; i++ {
				rq := concReq{kind: kinds[(i+round)%len(kinds)], q: in.Queries[(i*7+round)%len(in.Queries)].api()}
				if round%2 == 1 {
					// odd rounds: many requests for the SAME tuple with different max-depth values
					rq.q = in.Queries[round%len(in.Queries)].api()
					rq.depth = 1 + (i*3)%7
					if i%2 == 0 {
						rq.kind = "rest_check"
					} else {
						rq.kind = "grpc_check"
					}
				}
				reqs = append(reqs, rq)
			}
			rec.start()
			results := make([]string, len(reqs))
			var wg sync.WaitGroup
			start := make(chan struct{})
			for i := range reqs {
				wg.Add(1)
				go func(i int) {
					defer wg.Done()
					<-start
					results[i] = e.concDo(reqs[i])
				}(i)
			}
			close(start)
			wg.Wait()
			waitNoKetoGoroutines(2e9)
			rec.stop()
			concSets := rec.visitedSets()
			// the same requests, one after the other
			rec.start()
			alone := make([]string, len(reqs))
			for i := range reqs {
				alone[i] = e.concDo(reqs[i])
			}
			waitNoKetoGoroutines(2e9)
			rec.stop()
			aloneSets := rec.visitedSets()
			var diffs []map[string]any
			for i := range reqs {
				if results[i] != alone[i] {
					diffs = append(diffs, map[string]any{"kind": reqs[i].kind, "query": reqs[i].q.String(), "concurrent": trunc(results[i], 400), "alone": trunc(alone[i], 400)})
				}
			}
			out.write(map[string]any{"round": round, "requests": len(reqs), "diffs": diffs,
				"visited_sets_concurrent": len(concSets), "visited_sets_alone": len(aloneSets),
				"visited_same": fmt.Sprint(concSets) == fmt.Sprint(aloneSets)})
		})
	}
}

func trunc(s string, n int) string {
	if len(s) > n {
		return s[:n] + "..."
	}
	return s
}
