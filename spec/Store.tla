------------------------------- MODULE Store -------------------------------
(***************************************************************************)
(* The relationship store of Ory Keto at the level its API promises:       *)
(* per network (tenant) a multiset of relationships; create, transact      *)
(* (insert, then delete every copy of each deleted relationship, all or    *)
(* nothing), delete-by-query and the read operations.  Invalid arguments   *)
(* (unknown namespace, no subject) are explicit steps that change nothing. *)
(*                                                                         *)
(* Used three ways: exhaustively (StoreSmall.cfg) for the action           *)
(* properties; as a generator of API histories with the expected           *)
(* observation after every step (StoreGen.cfg) that the harness replays    *)
(* over REST and gRPC; and by TraceStore.tla to validate recorded runs.    *)
(***************************************************************************)
EXTENDS Integers, Sequences, FiniteSets, TLC, Json, Bags, SequencesExt

KC == INSTANCE KetoCheck   \* the meaning of a check on the stored relationships

CONSTANTS Mode,      \* "small" (exhaustive) or "gen" (behaviour generation)
          NRuns,     \* gen: number of behaviours
          NSteps,    \* gen: operations per behaviour
          MaxCopies, \* small: bound on the multiplicity of a relationship
          Faults     \* gen: some valid writes meet a storage failure

Networks == {"A", "B"}
\* n1, n2 carry no configuration; n3 (generation mode) declares r1 and r2 with r2 := r2 or r1 (a computed subject set),
\* so that checks also go through the rewrite traversal of the storage layer
KnownNs  == IF Mode = "small" THEN {"n1", "n2"} ELSE {"n1", "n2", "n3"}
AllNs    == KnownNs \cup {"nope"}
Objs     == IF Mode = "small" THEN {"o1"} ELSE {"o1", "o2"}
Rels     == IF Mode = "small" THEN {"r1"} ELSE {"r1", "", "r2"}
Subs     == IF Mode = "small"
            THEN {<<"id", "u1">>, <<"set", "n1", "o1", "r1">>}
            ELSE {<<"id", "u1">>, <<"id", "o1">>, <<"set", "n1", "o1", "r1">>, <<"set", "n1", "o1", "">>, <<"set", "n2", "o1", "r1">>,
                  <<"set", "n2", "o2", "">>, <<"set", "nope", "o2", "r1">>,   \* subject sets that differ in exactly one field
                  <<"set", "n3", "o1", "r2">>}
NoSub    == <<"none">>
TupleNs  == IF Mode = "small" THEN {"n1", "nope"} ELSE AllNs
Tuples   == TupleNs \X Objs \X Rels \X (Subs \cup {NoSub})

\* a relationship is writable iff its namespaces are configured and it has a subject
Valid(t) == t[1] \in KnownNs /\ t[4] # NoSub /\ (t[4][1] = "set" => t[4][2] \in KnownNs)

Nil  == "-"          \* absent string field of a query
NilS == <<"nil">>    \* absent subject of a query
Queries == (TupleNs \cup {Nil}) \X (Objs \cup {Nil}) \X (Rels \cup {Nil}) \X (Subs \cup {NilS})
Match(t, q) == /\ (q[1] = Nil \/ q[1] = t[1]) /\ (q[2] = Nil \/ q[2] = t[2])
               /\ (q[3] = Nil \/ q[3] = t[3]) /\ (q[4] = NilS \/ q[4] = t[4])
\* a query is acceptable iff every namespace it names is configured
QValid(q) == (q[1] = Nil \/ q[1] \in KnownNs) /\ (q[4] = NilS \/ q[4][1] = "id" \/ q[4][2] \in KnownNs)

VARIABLES store,   \* [Networks -> bag of relationships]
          last,    \* the last operation and its reply: [op, nid, args, ok, reply]
          hist, steps, run   \* generation only
vars == <<store, last, hist, steps, run>>

SelBag(b, P(_)) == [t \in {x \in DOMAIN b : P(x)} |-> b[t]]
RemoveAll(b, S) == [t \in (DOMAIN b) \ S |-> b[t]]
RECURSIVE AddAll(_, _)
AddAll(b, ts) == IF ts = <<>> THEN b ELSE AddAll(b (+) SetToBag({Head(ts)}), Tail(ts))
BagList(b) == {<<t, b[t]>> : t \in DOMAIN b}
SeqToSet(s) == {s[i] : i \in 1..Len(s)}

Reply(op, n, args, ok, rep) == [op |-> op, nid |-> n, args |-> args, ok |-> ok, reply |-> rep]

(***************************************************************************)
(* Operations.  Each is total: the invalid case is a disjunct that leaves  *)
(* the store unchanged and answers ok = FALSE.                             *)
(***************************************************************************)
Create(n, t) ==
  /\ store' = IF Valid(t) THEN [store EXCEPT ![n] = @ (+) SetToBag({t})] ELSE store
  /\ last' = Reply("create", n, <<t>>, Valid(t), {})

\* insert ins (a sequence, repeats allowed), then delete every copy of each element of del
Transact(n, ins, del) ==
  LET ok == (\A i \in 1..Len(ins) : Valid(ins[i])) /\ (\A i \in 1..Len(del) : Valid(del[i]))
  IN /\ store' = IF ok THEN [store EXCEPT ![n] = RemoveAll(AddAll(@, ins), SeqToSet(del))] ELSE store
     /\ last' = Reply("transact", n, <<ins, del>>, ok, {})

DeleteQ(n, q) ==
  /\ store' = IF QValid(q) THEN [store EXCEPT ![n] = RemoveAll(@, {t \in DOMAIN @ : Match(t, q)})] ELSE store
  /\ last' = Reply("deleteq", n, <<q>>, QValid(q), {})

\* a write that is valid but hits a storage failure: rejected, nothing changes
Failed(op, n, args) ==
  /\ store' = store
  /\ last' = [Reply(op, n, args, FALSE, {}) EXCEPT !.reply = {"storage-fault"}]

\* read operations: the reply is exactly the matching sub-bag; nothing changes
List(n, q) ==
  /\ store' = store
  /\ last' = Reply("list", n, <<q>>, QValid(q),
                   IF QValid(q) THEN BagList(SelBag(store[n], LAMBDA t : Match(t, q))) ELSE {})

\* a check on the stored relationships of network n.  The namespaces of this
\* module carry no relation configuration, so the meaning is: direct
\* relationship, or membership in a subject set that has the relation
\* (KetoCheck!RefSem).  Unknown namespaces are "denied", not an error; a
\* relationship without subject is a malformed request.
CheckK(n) == LET u == SetToSeq(DOMAIN store[n]) IN
  [cfg |-> [m \in KnownNs |-> IF m = "n3" THEN [r1 |-> KC!Rel(<<>>, KC!None), r2 |-> KC!Rel(<<>>, KC!Or(<<KC!CSS("r1")>>))]
                                ELSE [x \in {} |-> 0]], strict |-> FALSE, U |-> u, S |-> 1..Len(u),
   ord |-> [i \in 1..Len(u) |-> i], w |-> 100, vm |-> "scoped", coll |-> TRUE, sc |-> TRUE, fk |-> 0, alias |-> FALSE]
Allowed(n, t) == t[1] \in KnownNs /\ (t[4][1] = "set" => t[4][2] \in KnownNs) /\ KC!RefSem(CheckK(n), t)
Check(n, t) ==
  /\ store' = store
  /\ last' = Reply("check", n, <<t>>, t[4] # NoSub, IF t[4] # NoSub /\ Allowed(n, t) THEN {"allowed"} ELSE {})

Init ==
  /\ store = [n \in Networks |-> EmptyBag]
  /\ last = Reply("init", "A", <<>>, TRUE, {})
  /\ hist = <<>> /\ steps = 0
  /\ run \in (IF Mode = "gen" THEN 1..NRuns ELSE {0})

(***************************************************************************)
(* Exhaustive next-state relation (Mode = "small").                        *)
(***************************************************************************)
Bounded == \A n \in Networks : \A t \in DOMAIN store'[n] : store'[n][t] <= MaxCopies
NextSmall ==
  /\ UNCHANGED <<hist, steps, run>>
  /\ \E n \in Networks :
       \/ \E t \in Tuples : Create(n, t)
       \/ \E i \in Tuples, d \in Tuples : Transact(n, <<i>>, <<d>>)
       \/ \E i \in Tuples : Transact(n, <<i, i>>, <<>>)
       \/ \E q \in Queries : DeleteQ(n, q)
       \/ \E t \in Tuples : Failed("create", n, <<t>>)
       \/ \E q \in Queries : List(n, q)
       \/ \E t \in Tuples : Check(n, t)
  /\ Bounded

(***************************************************************************)
(* Behaviour generation (Mode = "gen"): one operation drawn per step with  *)
(* TLC's seeded RNG, so that every state has a single successor; the       *)
(* history carries, after every step, the reply and both networks' bags.   *)
(***************************************************************************)
Pick(S) == {RandomElement(S)}
\* checks that have a chance of being allowed: a stored node asked for a stored subject, in n3 also through the rewritten relation
CheckTargets(n) == LET st == DOMAIN store[n] IN
  IF st = {} THEN Tuples
  ELSE {<<t[1], t[2], r, u[4]>> : <<t, u, r>> \in {<<t, u, r>> \in st \X st \X Rels : r = t[3] \/ (t[1] = "n3" /\ r = "r2")}}
\* list queries that select something: a stored relationship with any of the 2^4 subsets of its fields kept
QueryTargets(n) == LET st == DOMAIN store[n] IN
  IF st = {} THEN Queries
  ELSE {<<IF m[1] THEN t[1] ELSE Nil, IF m[2] THEN t[2] ELSE Nil, IF m[3] THEN t[3] ELSE Nil, IF m[4] THEN t[4] ELSE NilS>> :
          <<t, m>> \in st \X [1..4 -> BOOLEAN]}
\* the fully specified query of a relationship that is stored more than once (all copies must come back)
DupTargets(n) == LET d == {t \in DOMAIN store[n] : store[n][t] > 1} IN
  IF d = {} THEN QueryTargets(n) ELSE {<<t[1], t[2], t[3], t[4]>> : t \in d}
\* creating a relationship that is already stored makes a second copy
CreateTargets(n, quarter) == IF quarter = 1 /\ DOMAIN store[n] # {} THEN DOMAIN store[n] ELSE Tuples
Snapshot == [n \in Networks |-> BagList(store'[n])]
NextGen ==
  /\ steps < NSteps /\ steps' = steps + 1 /\ run' = run
  /\ \E k \in Pick(1..12), nk \in Pick(1..4), flt \in Pick(1..6) :
       LET n == IF nk = 4 THEN "B" ELSE "A"
           fault == Faults /\ flt = 1        \* one write in six meets a failing storage statement
           AllValid(ts) == \A j \in 1..Len(ts) : Valid(ts[j])
       IN
       CASE k \in {1, 2, 3} -> \E qu \in Pick(1..3) : \E t \in Pick(CreateTargets(n, qu)) : IF fault /\ Valid(t) THEN Failed("create", n, <<t>>) ELSE Create(n, t)
         [] k \in {4, 5} -> \E i1 \in Pick(Tuples), i2 \in Pick(Tuples), d1 \in Pick(Tuples), d2 \in Pick(Tuples),
                              shape \in Pick(1..4) :
                              LET ins == CASE shape = 1 -> <<i1>> [] shape = 2 -> <<i1, i2>> [] shape = 3 -> <<i1, i1>> [] OTHER -> <<>>
                                  del == CASE shape = 1 -> <<d1>> [] shape = 2 -> <<>> [] shape = 3 -> <<d1, d2>> [] OTHER -> <<d1>>
                              IN IF fault /\ AllValid(ins) /\ AllValid(del) THEN Failed("transact", n, <<ins, del>>) ELSE Transact(n, ins, del)
         [] k \in {6, 7} -> \E third \in Pick(1..3) : \E q \in Pick(IF third = 1 THEN QueryTargets(n) ELSE Queries) : IF fault /\ QValid(q) THEN Failed("deleteq", n, <<q>>) ELSE DeleteQ(n, q)
         [] k \in {8, 9} -> \E half \in Pick(1..2) : \E t \in Pick(IF half = 1 THEN Tuples ELSE CheckTargets(n)) : Check(n, t)
         [] OTHER -> \E third \in Pick(1..3) : \E q \in Pick(CASE third = 1 -> Queries [] third = 2 -> QueryTargets(n) [] OTHER -> DupTargets(n)) : List(n, q)
  /\ hist' = Append(hist, [op |-> last'.op, nid |-> last'.nid, args |-> last'.args, ok |-> last'.ok,
                           reply |-> last'.reply, after |-> Snapshot])
  /\ (steps' = NSteps => PrintT(ToJson([run |-> run, steps |-> hist'])))
  /\ ((steps' = NSteps /\ run = 1) => PrintT(ToJson([universe |-> {t \in Tuples : Valid(t)}])))

Next == IF Mode = "gen" THEN NextGen ELSE NextSmall
Spec == Init /\ [][Next]_vars

(***************************************************************************)
(* Properties (checked exhaustively in Mode = "small").                    *)
(***************************************************************************)
TypeOK == \A n \in Networks : IsABag(store[n]) /\ DOMAIN store[n] \subseteq {t \in Tuples : Valid(t)}

IsReadOp(op) == op \in {"list", "check"}
\* C17: read operations never change anything
ReadOnlyUnchanged == [][IsReadOp(last'.op) => store' = store]_vars
\* C06: an operation in one network leaves every other network untouched
Isolation == [][\A n \in Networks : n # last'.nid => store'[n] = store[n]]_vars
\* C04/C13: rejected operations change nothing
ErrorsChangeNothing == [][~last'.ok => store' = store]_vars
\* C04: a successful create adds exactly one copy; nothing else changes
CreateAddsOne == [][(last'.op = "create" /\ last'.ok) =>
                      LET t == last'.args[1] n == last'.nid IN
                        /\ CopiesIn(t, store'[n]) = CopiesIn(t, store[n]) + 1
                        /\ \A u \in Tuples : u # t => CopiesIn(u, store'[n]) = CopiesIn(u, store[n])]_vars
\* C04: delete-by-query removes all and only the matching relationships
DeleteRemovesMatching == [][(last'.op = "deleteq" /\ last'.ok) =>
                      LET q == last'.args[1] n == last'.nid IN
                        \A u \in Tuples : CopiesIn(u, store'[n]) = IF Match(u, q) THEN 0 ELSE CopiesIn(u, store[n])]_vars
\* C04/C05: transact is insert-then-delete, all or nothing
TransactExact == [][(last'.op = "transact" /\ last'.ok) =>
                      LET ins == last'.args[1] del == last'.args[2] n == last'.nid IN
                        \A u \in Tuples : CopiesIn(u, store'[n]) =
                           IF u \in SeqToSet(del) THEN 0
                           ELSE CopiesIn(u, store[n]) + Cardinality({i \in 1..Len(ins) : ins[i] = u})]_vars
\* C04: a list reply is exactly the matching part of the store
ListIsMatch == last.op = "list" /\ last.ok =>
                  last.reply = BagList(SelBag(store[last.nid], LAMBDA t : Match(t, last.args[1])))
=============================================================================
