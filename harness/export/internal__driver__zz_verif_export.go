//go:build verif

package driver

import (
	"context"
	"testing"

	"github.com/ory/x/configx"
	"github.com/ory/x/logrusx"

	"github.com/ory/keto/internal/driver/config"
	"github.com/ory/keto/internal/x/dbx"
	"github.com/ory/keto/ketoctx"
)

// WithContextualizer is added by the /verif overlay (never part of the repository).
func WithContextualizer(c ketoctx.Contextualizer) TestRegistryOption {
	return func(_ testing.TB, r *RegistryDefault) { r.ctxer = c }
}

// VerifNewFileRegistry builds a registry on in-memory sqlite like NewTestRegistry,
// but configured from a WATCHED configuration file (the way Keto is deployed): changes
// to the file are hot-reloaded by the configuration provider.
func VerifNewFileRegistry(t testing.TB, cfgFile string) *RegistryDefault {
	ctx, cancel := context.WithCancel(context.Background())
	t.Cleanup(cancel)
	dsn := dbx.GetSqlite(t, dbx.SQLiteMemory)
	l := logrusx.New("Ory Keto", "testing")
	cfgCtx := configx.ContextWithConfigOptions(ctx,
		// (forced values would shadow the file: only what the file never says is forced)
		configx.WithValues(map[string]interface{}{
			config.KeyDSN: dsn.Conn,
			"log.level":   "panic",
		}),
		configx.WithConfigFiles(cfgFile),
	)
	c, err := config.NewDefault(cfgCtx, nil, l)
	if err != nil {
		t.Fatalf("config from file: %v", err)
	}
	r := &RegistryDefault{c: c, l: l, ctxer: &ketoctx.DefaultContextualizer{}}
	if err := r.MigrateUp(ctx); err != nil {
		t.Fatalf("migrate: %v", err)
	}
	if err := r.Init(ctx); err != nil {
		t.Fatalf("init: %v", err)
	}
	return r
}
