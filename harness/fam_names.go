package zzverif

import (
	"sync"

	"context"
	"encoding/json"
	"fmt"
	"github.com/gofrs/uuid"
	"github.com/ory/keto/internal/relationtuple"
	"net/url"
	"strings"
	"testing"

	"github.com/ory/keto/ketoapi"
	rts "github.com/ory/keto/proto/ory/keto/relation_tuples/v1alpha2"
)

// C16: NameMap.tla batch shapes instantiated with adversarial strings.

type nameRel struct {
	Obj  string `json:"obj"`
	Kind string `json:"kind"`
	Sub  string `json:"sub"`
}

type namesIn struct {
	Batches [][]nameRel `json:"batches"`
	Sized   []struct {
		N       int    `json:"n"`
		Pattern string `json:"pattern"` // distinct | same | alternate | objsub | mod7
	} `json:"sized"`
}

// nameStrings: how a symbol is instantiated; cycles through adversarial classes per batch.
var nameClasses = []func(sym string) string{
	func(s string) string { return s },
	func(s string) string { return "" + s + " with space" },
	func(s string) string { return s + "/ünï-😀" },
	func(s string) string { return s + ":a#b@(c)" },
	func(s string) string { return s + strings.Repeat("L", 4000) },
	func(s string) string { return "\t" + s + "\x00\n" },
	func(s string) string { return strings.ToUpper(s) + s },
	func(s string) string { return s + "é" }, // composed
	func(s string) string { return s + "é" }, // decomposed: a different string
}

// uuidSpellings: different strings that the UUID library reads as the same UUID; as names they are unrelated strings.
func uuidSpellings(sym string) string {
	const u = "6ba7b810-9dad-11d1-80b4-00c04fd430c8"
	switch sym {
	case "x":
		return u
	case "y":
		return strings.ToUpper(u)
	case "z":
		return "urn:uuid:" + u
	}
	return "{" + u + "}" + sym
}

// v5Names: a name, the textual id the server derives for it, and the id derived for that text: a chain of unrelated names.
func v5Names(nid uuid.UUID) func(string) string {
	return func(sym string) string {
		base := "plain-name"
		switch sym {
		case "x":
			return base
		case "y":
			return uuid.NewV5(nid, base).String()
		case "z":
			return strings.ReplaceAll(uuid.NewV5(nid, base).String(), "-", "")
		}
		return base + sym
	}
}

func init() { families["names"] = famNames }

func apiString(rt *ketoapi.RelationTuple) string {
	if rt.SubjectID != nil {
		return fmt.Sprintf("%q|%q|%q|id|%q", rt.Namespace, rt.Object, rt.Relation, *rt.SubjectID)
	}
	if rt.SubjectSet != nil {
		return fmt.Sprintf("%q|%q|%q|set|%q|%q|%q", rt.Namespace, rt.Object, rt.Relation, rt.SubjectSet.Namespace, rt.SubjectSet.Object, rt.SubjectSet.Relation)
	}
	return "nosubject"
}

func (e *storeEnv) namesBatch(tuples []*ketoapi.RelationTuple) map[string]any {
	res := map[string]any{"n": len(tuples)}
	ctx := e.ctx("A")
	var bad []string
	// 1. mapper round trip, position by position
	its, err := e.reg.Mapper().FromTuple(ctx, tuples...)
	if err != nil {
		return map[string]any{"error": "FromTuple: " + err.Error()}
	}
	sqlCtl.keepSQL = true
	sqlCtl.begin(0, 0)
	back, err := e.reg.ReadOnlyMapper().ToTuple(ctx, its...)
	log := sqlCtl.end()
	if err != nil {
		return map[string]any{"error": "ToTuple: " + err.Error()}
	}
	if len(back) != len(tuples) {
		bad = append(bad, fmt.Sprintf("ToTuple returned %d relationships for %d", len(back), len(tuples)))
	} else {
		for i := range tuples {
			if apiString(back[i]) != apiString(tuples[i]) {
				bad = append(bad, fmt.Sprintf("position %d: wrote %.120s, read back %.120s", i, apiString(tuples[i]), apiString(back[i])))
				if len(bad) > 5 {
					break
				}
			}
		}
	}
	// lookups: id IN (..) with at most 100 ids, each distinct id once
	nids, maxPage, lookups := 0, 0, 0
	for _, st := range log {
		if st.Kind == "SELECT" && st.Table == "keto_uuid_mappings" {
			lookups++
			nids += st.Args
			if st.Args > maxPage {
				maxPage = st.Args
			}
		}
	}
	res["lookups"], res["ids_looked_up"], res["max_page"] = lookups, nids, maxPage
	// 2. determinism and injectivity of the name mapping
	names := map[string]bool{}
	for _, t := range tuples {
		names[t.Object] = true
		if t.SubjectID != nil {
			names[*t.SubjectID] = true
		} else {
			names[t.SubjectSet.Object] = true
		}
	}
	var list []string
	for n := range names {
		list = append(list, n)
	}
	u1, err1 := e.reg.MappingManager().MapStringsToUUIDs(ctx, list...)
	u2, err2 := e.reg.MappingManager().MapStringsToUUIDsReadOnly(ctx, list...)
	if err1 != nil || err2 != nil {
		bad = append(bad, fmt.Sprintf("mapping failed: %v %v", err1, err2))
	} else {
		seen := map[string]string{}
		for i := range list {
			if u1[i] != u2[i] {
				bad = append(bad, fmt.Sprintf("the same string mapped to two ids (%.40q)", list[i]))
			}
			if prev, ok := seen[u1[i].String()]; ok && prev != list[i] {
				bad = append(bad, fmt.Sprintf("two different strings share an id (%.40q, %.40q)", prev, list[i]))
			}
			seen[u1[i].String()] = list[i]
		}
		res["distinct_names"] = len(list)
	}
	// 3. write, then read back through REST and gRPC listings. The names written here
	// have never been mapped before (suffix), so that the first, failing attempt is the
	// one that introduces them.
	e.setInitial(nil)
	fresh := func(s string) string { return s + "~w" }
	var wtuples []*ketoapi.RelationTuple
	for _, t := range tuples {
		w := &ketoapi.RelationTuple{Namespace: t.Namespace, Object: fresh(t.Object), Relation: t.Relation}
		if t.SubjectID != nil {
			w.SubjectID = ptr(fresh(*t.SubjectID))
		} else {
			w.SubjectSet = &ketoapi.SubjectSet{Namespace: t.SubjectSet.Namespace, Object: fresh(t.SubjectSet.Object), Relation: t.SubjectSet.Relation}
		}
		wtuples = append(wtuples, w)
	}
	tuples = wtuples
	req := &rts.TransactRelationTuplesRequest{}
	for _, t := range tuples {
		req.RelationTupleDeltas = append(req.RelationTupleDeltas, &rts.RelationTupleDelta{Action: rts.RelationTupleDelta_ACTION_INSERT, RelationTuple: t.ToProto()})
	}
	// the first attempt meets a storage failure after the names were mapped; the client retries
	sqlCtl.beginTableFault("keto_relation_tuples")
	_, ferr := e.rt.TransactRelationTuples(ctx, req)
	if hit := sqlCtl.endTableFault(); hit && ferr == nil {
		bad = append(bad, "a write whose INSERT failed reported success")
	}
	if _, err := e.rt.TransactRelationTuples(ctx, req); err != nil {
		return map[string]any{"error": "transact: " + err.Error()}
	}
	want := map[string]int{}
	for _, t := range tuples {
		want[apiString(t)]++
	}
	cmp := func(name string, got map[string]int) {
		for k, n := range want {
			if got[k] != n {
				bad = append(bad, fmt.Sprintf("%s: %.160s written %d times, listed %d times", name, k, n, got[k]))
				break
			}
		}
		for k := range got {
			if want[k] == 0 {
				bad = append(bad, fmt.Sprintf("%s lists a relationship that was never written: %.160s", name, k))
				break
			}
		}
	}
	restGot := map[string]int{}
	token := ""
	for {
		q := url.Values{"page_size": {"73"}}
		if token != "" {
			q.Set("page_token", token)
		}
		code, body := e.do("A", e.rr, "GET", "/relation-tuples?"+q.Encode(), nil)
		if code != 200 {
			bad = append(bad, fmt.Sprintf("listing failed with %d", code))
			break
		}
		var resp ketoapi.GetResponse
		if err := json.Unmarshal(body, &resp); err != nil {
			bad = append(bad, "listing: "+err.Error())
			break
		}
		for _, rt := range resp.RelationTuples {
			restGot[apiString(rt)]++
		}
		if token = resp.NextPageToken; token == "" {
			break
		}
	}
	cmp("REST list", restGot)
	grpcGot := map[string]int{}
	token = ""
	for {
		resp, err := e.rt.ListRelationTuples(ctx, &rts.ListRelationTuplesRequest{RelationQuery: &rts.RelationQuery{}, PageSize: 250, PageToken: token})
		if err != nil {
			bad = append(bad, "gRPC list: "+err.Error())
			break
		}
		for _, pt := range resp.RelationTuples {
			grpcGot[apiString((&ketoapi.RelationTuple{}).FromProto(pt))]++
		}
		if token = resp.NextPageToken; token == "" {
			break
		}
	}
	cmp("gRPC list", grpcGot)
	// 4. a name stays readable as long as a relationship refers to it: other relationships that use the same names in OTHER
	// positions (the subject-set object of one is the object of another, ...) are written and deleted again
	var partners []*ketoapi.RelationTuple
	for i, t := range tuples {
		if i >= 40 {
			break
		}
		if t.SubjectSet != nil {
			partners = append(partners, &ketoapi.RelationTuple{Namespace: "n2", Object: t.SubjectSet.Object, Relation: "m", SubjectID: ptr(fmt.Sprintf("partner-%d", i))})
		} else {
			partners = append(partners, &ketoapi.RelationTuple{Namespace: "n1", Object: *t.SubjectID, Relation: "r", SubjectID: ptr(fmt.Sprintf("partner-%d", i))})
		}
		partners = append(partners, &ketoapi.RelationTuple{Namespace: "n2", Object: fmt.Sprintf("partner-o-%d", i), Relation: "m", SubjectID: ptr(t.Object)},
			&ketoapi.RelationTuple{Namespace: "n2", Object: fmt.Sprintf("partner-p-%d", i), Relation: "m", SubjectSet: &ketoapi.SubjectSet{Namespace: "n1", Object: t.Object, Relation: "r"}})
	}
	for _, action := range []rts.RelationTupleDelta_Action{rts.RelationTupleDelta_ACTION_INSERT, rts.RelationTupleDelta_ACTION_DELETE} {
		preq := &rts.TransactRelationTuplesRequest{}
		for _, t := range partners {
			preq.RelationTupleDeltas = append(preq.RelationTupleDeltas, &rts.RelationTupleDelta{Action: action, RelationTuple: t.ToProto()})
		}
		if _, err := e.rt.TransactRelationTuples(ctx, preq); err != nil {
			return map[string]any{"error": "transact (partners): " + err.Error()}
		}
	}
	afterGot := map[string]int{}
	token = ""
	for {
		resp, err := e.rt.ListRelationTuples(ctx, &rts.ListRelationTuplesRequest{RelationQuery: &rts.RelationQuery{}, PageSize: 250, PageToken: token})
		if err != nil {
			bad = append(bad, "gRPC list: "+err.Error())
			break
		}
		for _, pt := range resp.RelationTuples {
			afterGot[apiString((&ketoapi.RelationTuple{}).FromProto(pt))]++
		}
		if token = resp.NextPageToken; token == "" {
			break
		}
	}
	cmp("list after other relationships that shared these names were written and deleted again", afterGot)
	res["bad"] = bad
	_ = context.Background
	return res
}

func famNames(t *testing.T) {
	var in namesIn
	readJSON(*fIn, &in)
	out := newNDWriter(*fOut)
	defer out.close()
	si, sn := shard()
	e := newStoreEnv(t, storeNamespaces(), *fSeed)
	classes := append(append([]func(string) string{}, nameClasses...), uuidSpellings, v5Names(e.reg.Persister().NetworkID(e.ctx("A"))))
	unit := 0
	for bi, b := range in.Batches {
		unit++
		if unit%sn != si {
			continue
		}
		cls := classes[(bi+int(*fSeed))%len(classes)]
		var ts []*ketoapi.RelationTuple
		for _, r := range b {
			rt := &ketoapi.RelationTuple{Namespace: "n1", Object: cls(r.Obj), Relation: "r"}
			if r.Kind == "id" {
				rt.SubjectID = ptr(cls(r.Sub))
			} else {
				rt.SubjectSet = &ketoapi.SubjectSet{Namespace: "n2", Object: cls(r.Sub), Relation: "m"}
			}
			ts = append(ts, rt)
		}
		r := e.namesBatch(ts)
		r["batch"] = bi
		out.write(r)
	}
	if si == 0 {
		// the same mapper serves every request: calls in flight together must map like calls made one after the other
		const G, N = 16, 250
		ctx := e.ctx("A")
		mk := func(g, i int) *ketoapi.RelationTuple {
			rt := &ketoapi.RelationTuple{Namespace: "n1", Object: fmt.Sprintf("cc-obj-%d-%d", g, i), Relation: "r"}
			if i%2 == 0 {
				rt.SubjectID = ptr(fmt.Sprintf("cc-sub-%d-%d", g, i))
			} else {
				rt.SubjectSet = &ketoapi.SubjectSet{Namespace: "n2", Object: fmt.Sprintf("cc-set-%d-%d", g, i), Relation: "m"}
			}
			return rt
		}
		line := func(its []*relationtuple.RelationTuple, err error) string {
			if err != nil || len(its) != 1 {
				return fmt.Sprintf("err %v (%d)", err, len(its))
			}
			return its[0].String()
		}
		want := make([][]string, G)
		for g := 0; g < G; g++ {
			for i := 0; i < N; i++ {
				want[g] = append(want[g], line(e.reg.ReadOnlyMapper().FromTuple(ctx, mk(g, i))))
			}
		}
		var bad []string
		var mu sync.Mutex
		var wg sync.WaitGroup
		for _, mapper := range []*relationtuple.Mapper{e.reg.ReadOnlyMapper(), e.reg.Mapper()} {
			for g := 0; g < G; g++ {
				wg.Add(1)
				go func(g int, mapper *relationtuple.Mapper) {
					defer wg.Done()
					for i := 0; i < N; i++ {
						if got := line(mapper.FromTuple(ctx, mk(g, i))); got != want[g][i] {
							mu.Lock()
							if len(bad) < 5 {
								bad = append(bad, fmt.Sprintf("%s mapped to %.160s next to other calls, to %.160s alone", mk(g, i), got, want[g][i]))
							}
							mu.Unlock()
							return
						}
					}
				}(g, mapper)
			}
			wg.Wait()
		}
		out.write(map[string]any{"concurrent": 2 * G * N, "bad": bad})
	}
	for zi, z := range in.Sized {
		unit++
		if unit%sn != si {
			continue
		}
		var ts []*ketoapi.RelationTuple
		for i := 0; i < z.N; i++ {
			var o, s string
			switch z.Pattern {
			case "distinct":
				o, s = fmt.Sprintf("o%d", i), fmt.Sprintf("s%d", i)
			case "same":
				o, s = "o", "s"
			case "alternate":
				o, s = fmt.Sprintf("o%d", i%2), fmt.Sprintf("s%d", i%3)
			case "objsub":
				o, s = fmt.Sprintf("x%d", i), fmt.Sprintf("x%d", i)
			default:
				o, s = fmt.Sprintf("o%d", i%7), fmt.Sprintf("ü-%d", i)
			}
			rt := &ketoapi.RelationTuple{Namespace: "n1", Object: o, Relation: "r"}
			if i%2 == 0 {
				rt.SubjectID = ptr(s)
			} else {
				rt.SubjectSet = &ketoapi.SubjectSet{Namespace: "n2", Object: s, Relation: "m"}
			}
			ts = append(ts, rt)
		}
		r := e.namesBatch(ts)
		r["sized"] = zi
		out.write(r)
	}
}
