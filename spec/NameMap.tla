------------------------------ MODULE NameMap ------------------------------
(***************************************************************************)
(* Names and UUIDs (internal/relationtuple/uuid_mapping.go,                *)
(* internal/persistence/sql/uuid_mapping.go).                              *)
(*                                                                         *)
(* Writing: FromTuple collects, for the i-th relationship, its subject     *)
(* name and its object name into one batch (positions 2i and 2i+1), maps   *)
(* the batch to UUIDs (UUIDv5 of network and string: deterministic and     *)
(* injective) and assigns the results back by position.                    *)
(* Reading: ToTuple collects the UUIDs the same way, looks the distinct    *)
(* ones up in pages of at most MP and scatters every result to all the     *)
(* positions that asked for it.                                            *)
(*                                                                         *)
(* The module checks, for every batch within the constants, that the round *)
(* trip is the identity position by position, that each distinct id is     *)
(* looked up exactly once and that no page exceeds MP; and it emits the    *)
(* batch shapes that the harness instantiates with adversarial strings.    *)
(***************************************************************************)
EXTENDS Integers, Sequences, FiniteSets, TLC, Json

CONSTANTS Syms,     \* symbolic names
          MaxLen,   \* batches up to this many relationships
          MP        \* lookup page size

\* a relationship of a batch: object name, subject kind, subject name
Rels == [obj : Syms, kind : {"id", "set"}, sub : Syms]
SeqsUpTo(S, n) == UNION {[1..k -> S] : k \in 1..n}

\* the name mapping: injective and deterministic (an uninterpreted tag)
U(s) == <<"uuid", s>>
Name(u) == u[2]

\* FromTuple: strings in collection order (subject, object per relationship), then positional assignment
Collect(b) == [j \in 1..(2 * Len(b)) |-> IF j % 2 = 1 THEN b[(j + 1) \div 2].sub ELSE b[j \div 2].obj]
FromTuple(b) == LET u == [j \in 1..(2 * Len(b)) |-> U(Collect(b)[j])]
                IN [i \in 1..Len(b) |-> [obj |-> u[2 * i], kind |-> b[i].kind, sub |-> u[2 * i - 1]]]

\* batchFromUUIDs: distinct ids, pages of MP, scatter to all positions
RECURSIVE SetToSeqAny(_)
SetToSeqAny(S) == IF S = {} THEN <<>> ELSE LET x == CHOOSE y \in S : TRUE IN <<x>> \o SetToSeqAny(S \ {x})
Pages(ids) == LET d == SetToSeqAny({ids[j] : j \in 1..Len(ids)})
                  n == (Len(d) + MP - 1) \div MP
              IN [p \in 1..n |-> SubSeq(d, (p - 1) * MP + 1, IF p * MP < Len(d) THEN p * MP ELSE Len(d))]
Lookup(ids) == LET pg == Pages(ids)
                   found == UNION {{<<pg[p][k], Name(pg[p][k])>> : k \in 1..Len(pg[p])} : p \in 1..Len(pg)}
               IN [j \in 1..Len(ids) |-> (CHOOSE f \in found : f[1] = ids[j])[2]]
ToTuple(ib) == LET ids == [j \in 1..(2 * Len(ib)) |-> IF j % 2 = 1 THEN ib[(j + 1) \div 2].sub ELSE ib[j \div 2].obj]
                   names == Lookup(ids)
               IN [i \in 1..Len(ib) |-> [obj |-> names[2 * i], kind |-> ib[i].kind, sub |-> names[2 * i - 1]]]

RoundTrip(b) == ToTuple(FromTuple(b)) = b
PagesOK(b) == LET ids == Collect(b)
                  pg == Pages([j \in 1..Len(ids) |-> U(ids[j])])
                  all == UNION {{pg[p][k] : k \in 1..Len(pg[p])} : p \in 1..Len(pg)}
              IN /\ \A p \in 1..Len(pg) : Len(pg[p]) <= MP /\ Len(pg[p]) >= 1
                 /\ all = {U(ids[j]) : j \in 1..Len(ids)}
                 /\ \A p, q \in 1..Len(pg) : p # q => {pg[p][k] : k \in 1..Len(pg[p])} \cap {pg[q][k] : k \in 1..Len(pg[q])} = {}
Injective == \A s, t \in Syms : U(s) = U(t) <=> s = t

VARIABLES b, done
vars == <<b, done>>
Init == b \in SeqsUpTo(Rels, MaxLen) /\ done = FALSE
Next == /\ ~done /\ done' = TRUE /\ b' = b /\ PrintT(ToJson([batch |-> b]))
Spec == Init /\ [][Next]_vars
Faithful == RoundTrip(b) /\ PagesOK(b) /\ Injective
=============================================================================
