------------------------------- MODULE OplLex -------------------------------
(***************************************************************************)
(* The OPL lexer (internal/schema/lexer.go) as an automaton over character *)
(* classes.  The input is a sequence of characters from a small alphabet   *)
(* that has one representative of every class the state functions          *)
(* distinguish (letters that can spell a keyword, a digit, blank, newline, *)
(* every punctuation byte, both quotes, the comment and operator bytes, an *)
(* illegal ASCII byte, a two-byte rune and an invalid UTF-8 byte).         *)
(* Lex(in) is the sequence of items [typ, s, e] (byte offsets) up to and   *)
(* including the first EOF or Error item.                                  *)
(*                                                                         *)
(* Totality: every state function consumes at least one character or ends  *)
(* the scan, so the number of items is at most the input length plus one   *)
(* (ItemsBounded).                                                         *)
(***************************************************************************)
EXTENDS Integers, Sequences, FiniteSets, TLC, Json, Randomization

CONSTANTS Alpha,     \* "full": one representative of every class; "comment", "string": small alphabets explored to greater length
          MaxLen,    \* every input up to this length is enumerated
          NSample,   \* plus this many random longer inputs
          LongLen    \* of this length

Letters == {"a", "c", "t", "x"}
Digits  == {"1"}
Spaces  == {" ", "\n"}
OneRune == {":", ".", "(", ")", "[", "]", "{", "}", "<", ">", "=", ",", ";", "|", "!"}
Quotes  == {"'", "\""}
Others  == {"/", "*", "&", "#", "E", "B"}     \* E: a two-byte rune (e-acute), B: an invalid UTF-8 byte
Alphabet == CASE Alpha = "comment" -> {"/", "*", "a", "\n"}
              [] Alpha = "string" -> {"'", "\"", "a", "E", " "}
              [] OTHER -> Letters \cup Digits \cup Spaces \cup OneRune \cup Quotes \cup Others
Width(c) == IF c = "E" THEN 2 ELSE 1
Keywords == {"ctx"}    \* the keywords spellable over Letters ("class", "implements", "this" are exercised by C10's programs)

TypeOf == [x \in OneRune |->
  CASE x = ":" -> "OperatorColon" [] x = "." -> "OperatorDot" [] x = "(" -> "ParenLeft" [] x = ")" -> "ParenRight"
    [] x = "[" -> "BracketLeft" [] x = "]" -> "BracketRight" [] x = "{" -> "BraceLeft" [] x = "}" -> "BraceRight"
    [] x = "<" -> "AngledLeft" [] x = ">" -> "AngledRight" [] x = "=" -> "OperatorAssign" [] x = "," -> "OperatorComma"
    [] x = ";" -> "Semicolon" [] x = "|" -> "TypeUnion" [] OTHER -> "OperatorNot"]

Item(t, s, e) == [typ |-> t, s |-> s, e |-> e]
\* in: sequence of characters; i: index of the next character (1-based); b: its byte offset
At(in, i) == IF i <= Len(in) THEN in[i] ELSE "EOF"
RECURSIVE Cat(_)
Cat(s) == IF s = <<>> THEN "" ELSE Head(s) \o Cat(Tail(s))

RECURSIVE LexCode(_, _, _, _), SkipSpaces(_, _, _), RunIdent(_, _, _), LineComment(_, _, _, _, _),
          BlockComment(_, _, _, _, _), StringLit(_, _, _, _, _, _)
\* returns <<i, b>> after the run of blanks
SkipSpaces(in, i, b) == IF At(in, i) \in Spaces THEN SkipSpaces(in, i + 1, b + 1) ELSE <<i, b>>
\* returns <<i, b>> after the run of letters and digits
RunIdent(in, i, b) == IF At(in, i) \in Letters \cup Digits THEN RunIdent(in, i + 1, b + 1) ELSE <<i, b>>

\* acc: items so far.  Result: the complete item sequence.
LexCode(in, i0, b0, acc) ==
  LET p == SkipSpaces(in, i0, b0)
      i == p[1]
      b == p[2]
      c == At(in, i)
      c2 == At(in, i + 1)
  IN
  IF c = "EOF" THEN Append(acc, Item("EOF", b, b))
  ELSE IF c = "=" /\ c2 = ">" THEN LexCode(in, i + 2, b + 2, Append(acc, Item("OperatorArrow", b, b + 2)))
  ELSE IF c = "|" /\ c2 = "|" THEN LexCode(in, i + 2, b + 2, Append(acc, Item("OperatorOr", b, b + 2)))
  ELSE IF c = "&" /\ c2 = "&" THEN LexCode(in, i + 2, b + 2, Append(acc, Item("OperatorAnd", b, b + 2)))
  ELSE IF c = "/" /\ c2 = "/" THEN LineComment(in, i + 2, b + 2, b, acc)
  ELSE IF c = "/" /\ c2 = "*" THEN BlockComment(in, i + 2, b + 2, b, acc)
  ELSE IF c \in OneRune THEN LexCode(in, i + 1, b + 1, Append(acc, Item(TypeOf[c], b, b + 1)))
  ELSE IF c \in Quotes THEN StringLit(in, i + 1, b + 1, b + 1, c, acc)
  ELSE IF c \in Letters
       THEN LET q == RunIdent(in, i + 1, b + 1)
                text == Cat(SubSeq(in, i, q[1] - 1))
            IN LexCode(in, q[1], q[2], Append(acc, Item(IF text \in Keywords THEN "KeywordCtx" ELSE "Identifier", b, q[2])))
  ELSE Append(acc, Item("Error", b, b))      \* unexpected token: nothing consumed, the scan ends

\* up to, not including, the newline
LineComment(in, i, b, start, acc) ==
  IF At(in, i) \in {"\n", "EOF"} THEN LexCode(in, i, b, Append(acc, Item("Comment", start, b)))
  ELSE LineComment(in, i + 1, b + Width(At(in, i)), start, acc)

BlockComment(in, i, b, start, acc) ==
  IF At(in, i) = "EOF" THEN Append(acc, Item("Error", start, b))           \* unclosed comment
  ELSE IF At(in, i) = "*" /\ At(in, i + 1) = "/" THEN LexCode(in, i + 2, b + 2, Append(acc, Item("Comment", start, b + 2)))
  ELSE BlockComment(in, i + 1, b + Width(At(in, i)), start, acc)

\* the item is the text between the quotes
StringLit(in, i, b, start, q, acc) ==
  IF At(in, i) = "EOF" THEN Append(acc, Item("Error", start, b))           \* unclosed string literal
  ELSE IF At(in, i) = q THEN LexCode(in, i + 1, b + 1, Append(acc, Item("StringLiteral", start, b)))
  ELSE StringLit(in, i + 1, b + Width(At(in, i)), start, q, acc)

Lex(in) == LexCode(in, 1, 0, <<>>)

RECURSIVE Bytes(_)
Bytes(in) == IF in = <<>> THEN 0 ELSE Width(Head(in)) + Bytes(Tail(in))

(****************************** properties ******************************)
\* the scan ends with exactly one EOF or Error item, which is the last one
EndsOnce(its) == /\ Len(its) >= 1 /\ its[Len(its)].typ \in {"EOF", "Error"}
                 /\ \A k \in 1..(Len(its) - 1) : its[k].typ \notin {"EOF", "Error"}
\* progress: at most one item per input character, plus the final one
ItemsBounded(in, its) == Len(its) <= Len(in) + 1
\* positions are inside the input, ordered, and items do not overlap
Positions(in, its) == /\ \A k \in 1..Len(its) : 0 <= its[k].s /\ its[k].s <= its[k].e /\ its[k].e <= Bytes(in)
                      /\ \A k \in 1..(Len(its) - 1) : its[k].e <= its[k + 1].s \/ its[k + 1].typ = "Error"

VARIABLES in, done, ok
vars == <<in, done, ok>>
SeqsUpTo(S, n) == UNION {[1..k -> S] : k \in 0..n}
RandomSeq(n) == [k \in 1..n |-> RandomElement(Alphabet)]
Init == /\ in \in SeqsUpTo(Alphabet, MaxLen) \cup {RandomSeq(LongLen) : k \in 1..NSample}
        /\ done = FALSE /\ ok = TRUE
Next == /\ ~done /\ done' = TRUE /\ in' = in
        /\ LET its == Lex(in) IN
             /\ ok' = (EndsOnce(its) /\ ItemsBounded(in, its) /\ Positions(in, its))
             /\ PrintT(ToJson([in |-> in, items |-> its]))
Spec == Init /\ [][Next]_vars
LexerTotal == ok
=============================================================================
