//go:build verif

package schema

// Added by the /verif overlay (never part of the repository): access to the
// unexported lexer and to the source span of a parse error.

type VerifItem struct {
	Typ        string
	Start, End int
}

// VerifLex returns the items up to and including the first EOF or error item;
// it gives up (ok = false) after limit items.
func VerifLex(input string, limit int) (items []VerifItem, ok bool) {
	l := Lex("verif", input)
	for len(items) < limit {
		it := l.nextItem()
		items = append(items, VerifItem{Typ: it.Typ.String(), Start: it.Start, End: it.End})
		if it.Typ == itemEOF || it.Typ == itemError {
			return items, true
		}
	}
	return items, false
}

func (e *ParseError) VerifSpan() (start, end int) { return e.item.Start, e.item.End }
