------------------------------- MODULE Reload -------------------------------
(***************************************************************************)
(* Reloading namespace configuration from watched files                    *)
(* (internal/driver/config: oplConfigWatcher, NamespaceWatcher,            *)
(* memoryNamespaceManager).                                                *)
(*                                                                         *)
(* A writer replaces the content of file f by version v (valid or not) or  *)
(* removes the file.  The file watcher notices a change some time later,   *)
(* reads the content the file has AT THAT MOMENT (several writes may       *)
(* coalesce) and hands an event to the manager, which updates what it      *)
(* holds for that file and recomputes the visible namespaces:              *)
(*   OPL:    all files are parsed again; the result replaces the visible   *)
(*           set only if no file has an error (all or nothing)             *)
(*   legacy: per file, a version that fails to parse keeps the previous    *)
(*           namespace of that file                                        *)
(*                                                                         *)
(* OneShotReader = TRUE models the OPL watcher as it was: it kept the      *)
(* event's reader per file, and a reader yields its bytes only once, so on *)
(* the next event every other file reads as empty (no namespaces, no       *)
(* error).                                                                 *)
(***************************************************************************)
EXTENDS Integers, Sequences, FiniteSets, TLC

CONSTANTS Files, MaxVer, Invalid,   \* Invalid: set of <<file, version>> whose content does not parse
          Variant,                  \* "opl" | "legacy"
          OneShotReader, MaxQueue

\* invalid-version patterns for the model checking configurations (cfg files cannot write tuples)
Inv1 == {<<"a", 2>>, <<"b", 1>>}
Inv2 == {<<"a", 1>>, <<"a", 3>>}
Inv3 == {}
Versions == 1..MaxVer
Valid(f, v) == v # 0 /\ <<f, v>> \notin Invalid

VARIABLES disk,      \* disk[f]: version currently in file f (0 = no file)
          written,   \* written[f]: set of versions ever written to f
          pending,   \* files with a change the watcher has not looked at yet
          queue,     \* events for the manager: <<f, version read>> (0 = removed)
          slot,      \* what the manager holds per file: [ver, fresh]; fresh = reader not consumed yet
          good,      \* legacy: last version of f that parsed (0 = none)
          visible    \* visible[f]: version whose namespaces are served for f (0 = none)
vars == <<disk, written, pending, queue, slot, good, visible>>

Init == /\ disk = [f \in Files |-> 0] /\ written = [f \in Files |-> {}] /\ pending = {} /\ queue = <<>>
        /\ slot = [f \in Files |-> [ver |-> 0, fresh |-> FALSE]] /\ good = [f \in Files |-> 0]
        /\ visible = [f \in Files |-> 0]

NextVer(f) == IF written[f] = {} THEN 1 ELSE 1 + CHOOSE m \in written[f] : \A x \in written[f] : x <= m
Write(f) == /\ NextVer(f) <= MaxVer
            /\ disk' = [disk EXCEPT ![f] = NextVer(f)] /\ written' = [written EXCEPT ![f] = @ \cup {NextVer(f)}]
            /\ pending' = pending \cup {f}
            /\ UNCHANGED <<queue, slot, good, visible>>
Remove(f) == /\ disk[f] # 0 /\ disk' = [disk EXCEPT ![f] = 0] /\ pending' = pending \cup {f}
             /\ UNCHANGED <<written, queue, slot, good, visible>>

\* the watcher reads the file now and queues an event for the manager
WatcherRead(f) == /\ f \in pending /\ Len(queue) < MaxQueue
                  /\ pending' = pending \ {f} /\ queue' = Append(queue, <<f, disk[f]>>)
                  /\ UNCHANGED <<disk, written, slot, good, visible>>

\* OPL: what parsing slot s of file f gives now: "err", or the version whose namespaces result (0 = none)
OplRead(s, f) == IF s.ver = 0 THEN 0
                 ELSE IF OneShotReader /\ ~s.fresh THEN 0            \* an exhausted reader: empty input, no namespaces, no error
                 ELSE IF Valid(f, s.ver) THEN s.ver ELSE -1
HandleOpl(f, v) ==
  LET s1 == [slot EXCEPT ![f] = [ver |-> v, fresh |-> TRUE]]
      res == [g \in Files |-> OplRead(s1[g], g)]
      anyErr == \E g \in Files : res[g] = -1
  IN /\ slot' = [g \in Files |-> [ver |-> s1[g].ver, fresh |-> FALSE]]      \* every reader was read
     /\ visible' = IF anyErr THEN visible ELSE res
     /\ UNCHANGED good
HandleLegacy(f, v) ==
  /\ IF v = 0 THEN good' = [good EXCEPT ![f] = 0]
     ELSE IF Valid(f, v) THEN good' = [good EXCEPT ![f] = v] ELSE UNCHANGED good
  /\ visible' = good' /\ UNCHANGED slot
Handle == /\ queue # <<>>
          /\ LET f == Head(queue)[1] v == Head(queue)[2] IN
               IF Variant = "opl" THEN HandleOpl(f, v) ELSE HandleLegacy(f, v)
          /\ queue' = Tail(queue) /\ UNCHANGED <<disk, written, pending>>

Next == \/ \E f \in Files : Write(f) \/ Remove(f) \/ WatcherRead(f)
        \/ Handle
Spec == Init /\ [][Next]_vars /\ WF_vars(Handle) /\ \A f \in Files : WF_vars(WatcherRead(f))

(****************************** properties ******************************)
\* what is served for a file is one valid version of it written so far, or nothing
VisibleIsValidVersion == \A f \in Files : visible[f] = 0 \/ (visible[f] \in written[f] /\ Valid(f, visible[f]))
\* once a valid version of a file that still exists has been loaded, the file never shows nothing
\* (history variable free formulation: nothing is shown only if the manager was told the file is gone, or never saw a valid version)
NeverEmptyAfterValid ==
  [][\A f \in Files : (visible[f] # 0 /\ visible'[f] = 0) =>
        IF Variant = "opl" THEN slot'[f].ver = 0 ELSE (queue # <<>> /\ Head(queue) = <<f, 0>>)]_vars
\* the last written version of every file, if valid, is eventually what is served (when writing stops)
Quiescent == pending = {} /\ queue = <<>>
LastValidVisible == \A f \in Files : (disk[f] # 0 /\ Valid(f, disk[f]) /\ (Variant = "legacy" \/ \A g \in Files : disk[g] = 0 \/ Valid(g, disk[g])))
                                       => visible[f] = disk[f]
Converges == Quiescent => LastValidVisible
=============================================================================
