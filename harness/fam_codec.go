package zzverif

import (
	"encoding/json"
	"fmt"
	"github.com/ory/keto/internal/relationtuple"
	"strings"
	"testing"

	"github.com/ory/keto/ketoapi"
	rts "github.com/ory/keto/proto/ory/keto/relation_tuples/v1alpha2"
)

// C18: Codec.tla strings and values against package ketoapi.

type codecVal struct {
	Ns  []string `json:"ns"`
	Obj []string `json:"obj"`
	Rel []string `json:"rel"`
	Sub struct {
		Kind string   `json:"kind"`
		ID   []string `json:"id"`
		Ns   []string `json:"ns"`
		Obj  []string `json:"obj"`
		Rel  []string `json:"rel"`
	} `json:"sub"`
}

type codecIn struct {
	Strings [][]string `json:"strings"`
	Values  []codecVal `json:"values"`
}

func cat(cs []string) string { return strings.Join(cs, "") }

func tupleDesc(rt *ketoapi.RelationTuple) map[string]any {
	m := map[string]any{"ns": rt.Namespace, "obj": rt.Object, "rel": rt.Relation}
	switch {
	case rt.SubjectID != nil:
		m["kind"], m["id"] = "id", *rt.SubjectID
	case rt.SubjectSet != nil:
		m["kind"], m["sns"], m["sobj"], m["srel"] = "set", rt.SubjectSet.Namespace, rt.SubjectSet.Object, rt.SubjectSet.Relation
	default:
		m["kind"] = "none"
	}
	return m
}

func sameTuple(a, b *ketoapi.RelationTuple) bool {
	x, _ := json.Marshal(tupleDesc(a))
	y, _ := json.Marshal(tupleDesc(b))
	return string(x) == string(y)
}

func init() { families["codec"] = famCodec }

func famCodec(t *testing.T) {
	var in codecIn
	readJSON(*fIn, &in)
	out := newNDWriter(*fOut)
	defer out.close()
	si, sn := shard()
	if si == 0 {
		out.write(codecBodies(t))
	}
	for i, cs := range in.Strings {
		if i%sn != si {
			continue
		}
		s := cat(cs)
		res := map[string]any{"s": i}
		func() {
			defer func() {
				if p := recover(); p != nil {
					res["panic"] = fmt.Sprint(p)
				}
			}()
			rt, err := (&ketoapi.RelationTuple{}).FromString(s)
			if err != nil {
				res["err"] = true
				return
			}
			res["t"] = tupleDesc(rt)
			again, err := (&ketoapi.RelationTuple{}).FromString(rt.String())
			res["reparse_same"] = err == nil && sameTuple(again, rt)
			res["restr"] = rt.String()
		}()
		out.write(res)
	}
	for i, v := range in.Values {
		if i%sn != si {
			continue
		}
		rt := &ketoapi.RelationTuple{Namespace: cat(v.Ns), Object: cat(v.Obj), Relation: cat(v.Rel)}
		if v.Sub.Kind == "id" {
			rt.SubjectID = ptr(cat(v.Sub.ID))
		} else {
			rt.SubjectSet = &ketoapi.SubjectSet{Namespace: cat(v.Sub.Ns), Object: cat(v.Sub.Obj), Relation: cat(v.Sub.Rel)}
		}
		res := map[string]any{"v": i}
		func() {
			defer func() {
				if p := recover(); p != nil {
					res["panic"] = fmt.Sprint(p)
				}
			}()
			res["str"] = rt.String()
			back, err := (&ketoapi.RelationTuple{}).FromString(rt.String())
			res["str_roundtrip"] = err == nil && sameTuple(back, rt)
			// JSON
			b, err := json.Marshal(rt)
			var j ketoapi.RelationTuple
			res["json"] = err == nil && json.Unmarshal(b, &j) == nil && sameTuple(&j, rt)
			// URL query
			u, err := (&ketoapi.RelationTuple{}).FromURLQuery(rt.ToURLQuery())
			res["url"] = err == nil && sameTuple(u, rt)
			// protobuf (through the wire format)
			p := (&ketoapi.RelationTuple{}).FromProto(rt.ToProto())
			res["proto"] = sameTuple(p, rt)
			d, err := (&ketoapi.RelationTuple{}).FromDataProvider(rt.ToProto())
			res["proto_dp"] = err == nil && sameTuple(d, rt)
			// as a query, with every subset of the three string fields present
			qok := true
			for mask := 0; mask < 8; mask++ {
				q := &ketoapi.RelationQuery{SubjectID: rt.SubjectID, SubjectSet: rt.SubjectSet}
				if mask&1 != 0 {
					q.Namespace = &rt.Namespace
				}
				if mask&2 != 0 {
					q.Object = &rt.Object
				}
				if mask&4 != 0 {
					q.Relation = &rt.Relation
				}
				if mask >= 4 && i%2 == 0 {
					q.SubjectID, q.SubjectSet = nil, nil
				}
				want, _ := json.Marshal(q)
				uq, err := (&ketoapi.RelationQuery{}).FromURLQuery(q.ToURLQuery())
				got, _ := json.Marshal(uq)
				if err != nil || string(got) != string(want) {
					qok = false
				}
				var jq ketoapi.RelationQuery
				if json.Unmarshal(want, &jq) != nil {
					qok = false
				}
				got, _ = json.Marshal(&jq)
				if string(got) != string(want) {
					qok = false
				}
				pq := (&ketoapi.RelationQuery{}).FromDataProvider(&queryProvider{q.ToProto()})
				got, _ = json.Marshal(pq)
				if string(got) != string(want) {
					qok = false
				}
				// ... and decoded the way the gRPC list and delete handlers decode it
				hq := relationtuple.VerifQueryFromProto(q.ToProto())
				got, _ = json.Marshal(hq)
				if string(got) != string(want) {
					qok = false
					res["query_handler"] = fmt.Sprintf("sent %s, the handlers decode %s", want, got)
				}
			}
			res["query"] = qok
		}()
		out.write(res)
	}
}

type queryProvider struct{ q *rts.RelationQuery }

func (w *queryProvider) GetSubject() *rts.Subject { return w.q.Subject }
func (w *queryProvider) GetObject() *string       { return w.q.Object }
func (w *queryProvider) GetNamespace() *string    { return w.q.Namespace }
func (w *queryProvider) GetRelation() *string     { return w.q.Relation }

// codecBodies: the JSON body of a POST check is decoded per request. Bodies with a subject id and bodies with a subject set
// (and bodies that leave fields out) are sent one after the other to one server; every answer must be the answer the same
// relationship gets through the URL-query encoding (GET), whatever was sent before.
func codecBodies(t *testing.T) map[string]any {
	e := newStoreEnv(t, storeNamespaces(), *fSeed)
	set := &ketoapi.SubjectSet{Namespace: "n1", Object: "g", Relation: "m"}
	stored := []*ketoapi.RelationTuple{
		{Namespace: "n1", Object: "o", Relation: "r", SubjectSet: set},
		{Namespace: "n1", Object: "g", Relation: "m", SubjectID: ptr("member")},
		{Namespace: "n1", Object: "o2", Relation: "r", SubjectID: ptr("direct")},
	}
	e.setInitial(stored)
	tuples := []*ketoapi.RelationTuple{
		{Namespace: "n1", Object: "o", Relation: "r", SubjectID: ptr("nobody")},
		{Namespace: "n1", Object: "o", Relation: "r", SubjectSet: set},
		{Namespace: "n1", Object: "o2", Relation: "r", SubjectID: ptr("direct")},
		{Namespace: "n1", Object: "o2", Relation: "r", SubjectSet: set},
		{Namespace: "n1", Object: "o", Relation: "r", SubjectID: ptr("member")},
		{Namespace: "n1", Object: "o2", Relation: "", SubjectID: ptr("direct")},
		{Namespace: "n1", Object: "", Relation: "r", SubjectSet: &ketoapi.SubjectSet{Namespace: "n1", Object: "g", Relation: ""}},
	}
	var bad []string
	n := 0
	for round := 0; round < 3; round++ {
		for i := range tuples {
			for j := range tuples {
				for _, path := range []string{"/relation-tuples/check/openapi", "/relation-tuples/check"} {
					for _, rt := range []*ketoapi.RelationTuple{tuples[i], tuples[j]} {
						body, _ := json.Marshal(rt)
						pc, pb := e.do("A", e.rr, "POST", path, body)
						gc, gb := e.do("A", e.rr, "GET", path+"?"+rt.ToURLQuery().Encode(), nil)
						n++
						if pc != gc || string(pb) != string(gb) {
							if len(bad) < 5 {
								bad = append(bad, fmt.Sprintf("POST %s %s answered %d %.80s, GET of the same relationship %d %.80s (the body before it was %s)",
									path, body, pc, pb, gc, gb, func() string { b, _ := json.Marshal(tuples[i]); return string(b) }()))
							}
						}
					}
				}
			}
		}
	}
	return map[string]any{"bodies": n, "bad": bad}
}
