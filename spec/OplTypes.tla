------------------------------ MODULE OplTypes ------------------------------
(***************************************************************************)
(* The deferred type checks of the OPL parser (internal/schema/            *)
(* typechecks.go) against the relation lookups the check engine performs   *)
(* at run time (namespace.ASTRelationFor, checkTupleToSubjectSet).         *)
(*                                                                         *)
(* A program is a record of choices: the type of D.parents, the type of    *)
(* G.m, which namespaces declare the permission "view", the body of D.p,   *)
(* and at most one mutation that replaces a reference by an undeclared     *)
(* name.  Accepted is the type checker as written; RuntimeOK says that no  *)
(* check on stored relationships that conform to the declared types can    *)
(* ask a namespace for a relation it does not declare.                     *)
(*                                                                         *)
(* AsIsThroughSubjectSet: for this.related.R.traverse(p => p.X) the code   *)
(* looks X up on the types of T.R2 when R has type SubjectSet<T, R2>,      *)
(* while the engine evaluates X on T itself.                               *)
(***************************************************************************)
EXTENDS Integers, Sequences, FiniteSets, TLC, Json

CONSTANT AsIsThroughSubjectSet

PTypes == {"G", "SSGm", "U", "G|SSGm", "D"}
\* "U|SSDp": the group relation may hold D.parents subject sets: with a SubjectSet<G,"m"> type on D.parents this is a cycle of
\* subject-set types that crosses namespaces (U|SSGm is the cycle inside one namespace)
\* "SSGm": the group relation holds only subgroups - a subject-set type that never reaches a plain namespace
GMTypes == {"U", "U|SSGm", "U|SSDp", "SSGm"}
Bodies == {"inc_parents", "trav_rel_m", "trav_perm_view", "this_perm_q", "trav_rel_self"}
Mutations == {"none", "inc_undeclared_rel", "trav_undeclared_rel", "trav_undeclared_crel", "perm_undeclared",
              "type_undeclared_ns", "ss_undeclared_rel", "ss_undeclared_ns",
              \* a name that another class declares, but not the class that uses it
              "inc_foreign_rel", "trav_foreign_rel", "perm_foreign",
              \* the spelling other Zanzibar dialects give a wildcard relation: an undeclared name like any other
              "ss_dots_rel",
              \* names with a dot: class "G.x" declares m, class G does not declare "x.m" - the qualified names read alike
              "trav_dotted_collision"}
\* the order of the classes in the document means nothing
Orders == {"UGD", "DGU", "DUG"}
\* dup: the unmutated body appears first as another permission of D (the same relation is traversed twice in one document)
Programs == [pt : PTypes, gm : GMTypes, gview : BOOLEAN, uview : BOOLEAN, dview : BOOLEAN, body : Bodies, mut : Mutations, dup : BOOLEAN, order : Orders]

\* which mutations make sense for which program
Applicable(P) ==
  CASE P.mut = "none" -> TRUE
    [] P.mut = "inc_undeclared_rel" -> P.body = "inc_parents"
    [] P.mut \in {"trav_undeclared_rel", "trav_undeclared_crel"} -> P.body \in {"trav_rel_m", "trav_perm_view", "trav_rel_self"}
    [] P.mut = "perm_undeclared" -> P.body = "this_perm_q"
    [] P.mut = "type_undeclared_ns" -> TRUE
    [] P.mut \in {"ss_undeclared_rel", "ss_undeclared_ns", "ss_dots_rel"} -> P.pt \in {"SSGm", "G|SSGm"}
    [] P.mut = "inc_foreign_rel" -> P.body = "inc_parents"
    [] P.mut = "trav_foreign_rel" -> P.body \in {"trav_rel_m", "trav_perm_view", "trav_rel_self"}
    [] P.mut = "trav_dotted_collision" -> P.body = "trav_rel_m" /\ P.pt \in {"G", "G|SSGm"}
    [] P.mut = "perm_foreign" -> P.body = "this_perm_q" /\ ~P.dview /\ (P.gview \/ P.uview)

\* declared types as sequences of <<namespace, relation>>
TypesOf(t) == CASE t = "G" -> <<<<"G", "">>>> [] t = "SSGm" -> <<<<"G", "m">>>> [] t = "U" -> <<<<"U", "">>>>
                [] t = "D" -> <<<<"D", "">>>> [] t = "G|SSGm" -> <<<<"G", "">>, <<"G", "m">>>> [] t = "U|SSGm" -> <<<<"U", "">>, <<"G", "m">>>>
                [] t = "U|SSDp" -> <<<<"U", "">>, <<"D", "parents">>>>

\* the declarations of a program: namespace -> set of relation/permission names
Decls(P) == [U |-> {"self"} \cup (IF P.uview THEN {"view"} ELSE {}),
             G |-> {"m"} \cup (IF P.gview THEN {"view"} ELSE {}),
             D |-> {"parents", "q", "p"} \cup (IF P.dview THEN {"view"} ELSE {}) \cup (IF P.dup THEN {"p0"} ELSE {})]
RelTypes(P) == [U |-> [self |-> TypesOf("U")], G |-> [m |-> TypesOf(P.gm)], D |-> [parents |-> TypesOf(P.pt)]]

\* the references of the body of D.p: the traversed relation and the computed relation
Crel(P) == CASE P.body = "trav_rel_m" -> "m" [] P.body = "trav_perm_view" -> "view" [] P.body = "trav_rel_self" -> "self" [] OTHER -> ""

\* does looking up `rel` on the types reachable from (ns, r) succeed, as the code does it?
RECURSIVE CodeLookup(_, _, _, _, _)
CodeLookup(P, ns, r, rel, fuel) ==
  IF fuel < 0 THEN FALSE
  ELSE LET ts == RelTypes(P)[ns][r] IN
       \A i \in 1..Len(ts) :
          IF ts[i][2] = "" \/ ~AsIsThroughSubjectSet THEN rel \in Decls(P)[ts[i][1]]
          ELSE CodeLookup(P, ts[i][1], ts[i][2], rel, fuel - 1)
\* ... and as the engine will do it: on the namespace of every declared type
EngineLookup(P, ns, r, rel) == LET ts == RelTypes(P)[ns][r] IN \A i \in 1..Len(ts) : rel \in Decls(P)[ts[i][1]]

Accepted(P) ==
  /\ P.mut = "none"        \* every mutation introduces an undeclared reference, which must be rejected
  /\ (P.body \in {"trav_rel_m", "trav_perm_view", "trav_rel_self"} => CodeLookup(P, "D", "parents", Crel(P), 10))
RuntimeOK(P) == P.body \in {"trav_rel_m", "trav_perm_view", "trav_rel_self"} => EngineLookup(P, "D", "parents", Crel(P))

(****************************** source text ******************************)
TypeTxt(t) == CASE t = "G" -> "G[]" [] t = "SSGm" -> "SubjectSet<G, \"m\">[]" [] t = "U" -> "U[]" [] t = "D" -> "D[]"
                [] t = "G|SSGm" -> "(G | SubjectSet<G, \"m\">)[]" [] t = "U|SSGm" -> "(U | SubjectSet<G, \"m\">)[]"
                [] t = "U|SSDp" -> "(U | SubjectSet<D, \"parents\">)[]"
ParentsTxt(P) ==
  CASE P.mut = "type_undeclared_ns" -> "Nowhere[]"
    [] P.mut = "ss_undeclared_rel" -> IF P.pt = "SSGm" THEN "SubjectSet<G, \"zz\">[]" ELSE "(G | SubjectSet<G, \"zz\">)[]"
    [] P.mut = "ss_dots_rel" -> IF P.pt = "SSGm" THEN "SubjectSet<G, \"...\">[]" ELSE "(G | SubjectSet<G, \"...\">)[]"
    [] P.mut = "ss_undeclared_ns" -> IF P.pt = "SSGm" THEN "SubjectSet<Nowhere, \"m\">[]" ELSE "(G | SubjectSet<Nowhere, \"m\">)[]"
    [] OTHER -> TypeTxt(P.pt)
\* the token an error must point at
Offending(P) ==
  CASE P.mut \in {"inc_undeclared_rel", "trav_undeclared_rel", "trav_undeclared_crel", "perm_undeclared", "ss_undeclared_rel"} -> "zz"
    [] P.mut \in {"type_undeclared_ns", "ss_undeclared_ns"} -> "Nowhere"
    [] P.mut \in {"inc_foreign_rel", "trav_foreign_rel"} -> "m"
    [] P.mut = "perm_foreign" -> "view"
    [] P.mut = "ss_dots_rel" -> "..."
    [] P.mut = "trav_dotted_collision" -> "x.m"
    [] OTHER -> ""
BodyTxtM(P, mutated) ==
  LET r == IF mutated /\ P.mut \in {"inc_undeclared_rel", "trav_undeclared_rel"} THEN "zz"
           ELSE IF mutated /\ P.mut \in {"inc_foreign_rel", "trav_foreign_rel"} THEN "m" ELSE "parents"
      c == IF mutated /\ P.mut = "trav_undeclared_crel" THEN "zz" ELSE Crel(P)
  IN CASE mutated /\ P.mut = "trav_dotted_collision" -> "this.related.parents.traverse((x) => x.related[\"x.m\"].includes(ctx.subject))"
       [] P.body = "inc_parents" -> "this.related." \o r \o ".includes(ctx.subject)"
       [] P.body \in {"trav_rel_m", "trav_rel_self"} -> "this.related." \o r \o ".traverse((x) => x.related." \o c \o ".includes(ctx.subject))"
       [] P.body = "trav_perm_view" -> "this.related." \o r \o ".traverse((x) => x.permits." \o c \o "(ctx))"
       [] OTHER -> "this.permits." \o (IF mutated /\ P.mut = "perm_undeclared" THEN "zz" ELSE IF mutated /\ P.mut = "perm_foreign" THEN "view" ELSE "q") \o "(ctx)"
BodyTxt(P) == BodyTxtM(P, TRUE)
ViewTxt(rel) == "view: (ctx: Context): boolean => this.related." \o rel \o ".includes(ctx.subject)"
ClassU(P) ==
  "class U implements Namespace {\n  related: { self: U[] }\n"
  \o (IF P.uview THEN "  permits = { " \o ViewTxt("self") \o " }\n" ELSE "") \o "}\n"
ClassG(P) ==
  "class G implements Namespace {\n  related: { m: " \o TypeTxt(P.gm) \o " }\n"
  \o (IF P.gview THEN "  permits = { " \o ViewTxt("m") \o " }\n" ELSE "") \o "}\n"
ClassD(P) ==
  "class D implements Namespace {\n  related: { parents: " \o ParentsTxt(P) \o " }\n"
  \o "  permits = {\n    q: (ctx: Context): boolean => this.related.parents.includes(ctx.subject),\n"
  \o (IF P.dview THEN "    " \o ViewTxt("parents") \o ",\n" ELSE "")
  \o (IF P.dup THEN "    p0: (ctx: Context): boolean => " \o BodyTxtM(P, FALSE) \o ",\n" ELSE "")
  \o "    p: (ctx: Context): boolean => " \o BodyTxt(P) \o "\n  }\n}\n"
ClassGx(P) == IF P.mut = "trav_dotted_collision" THEN "class \"G.x\" implements Namespace {\n  related: { m: U[] }\n}\n" ELSE ""
Source(P) == ClassGx(P) \o CASE P.order = "UGD" -> ClassU(P) \o ClassG(P) \o ClassD(P)
               [] P.order = "DGU" -> ClassD(P) \o ClassG(P) \o ClassU(P)
               [] OTHER -> ClassD(P) \o ClassU(P) \o ClassG(P)

\* stored relationships that conform to the declared types (one per declared type), and the checks to run
Conforming(P) ==
  LET pts == TypesOf(P.pt)
      gms == TypesOf(P.gm)
      sub(t, obj) == IF t[2] = "" THEN <<"set", t[1], obj, "">> ELSE <<"set", t[1], obj, t[2]>>
  IN {<<"D", "d", "parents", sub(pts[i], CASE pts[i][1] = "G" -> "g" [] pts[i][1] = "U" -> "u1" [] OTHER -> "d2")>> : i \in 1..Len(pts)}
     \cup {<<"G", "g", "m", IF gms[i][2] = "" THEN <<"set", "U", "u1", "">>
                              ELSE IF gms[i][1] = "D" THEN <<"set", "D", "d2", "parents">> ELSE <<"set", "G", "h", "m">>>> : i \in 1..Len(gms)}
     \cup {<<"G", "h", "m", <<"set", "U", "u1", "">>>>, <<"U", "u1", "self", <<"set", "U", "u1", "">>>>}
     \cup (IF P.pt = "D" THEN {<<"D", "d2", "parents", <<"set", "D", "d3", "">>>>} ELSE {})

VARIABLES P, done
vars == <<P, done>>
Init == P \in {x \in Programs : Applicable(x)} /\ done = FALSE
Next == /\ ~done /\ done' = TRUE /\ P' = P
        /\ PrintT(ToJson([prog |-> P, src |-> Source(P), accepted |-> Accepted(P), runtime_ok |-> RuntimeOK(P),
                          offending |-> Offending(P), tuples |-> Conforming(P)]))
Spec == Init /\ [][Next]_vars
\* the property: an accepted program never fails at check time.  It holds for the
\* type checker that looks the computed relation up where the engine evaluates it.
Sound == Accepted(P) => RuntimeOK(P)
=============================================================================
