#!/usr/bin/env python3
"""regenerates MANIFEST.json from the table below (single source for the interface file)"""
import json, os
VERIF = os.path.dirname(os.path.dirname(os.path.abspath(__file__)))
ALL = ["C%02d" % i for i in range(1, 20)]

CHECKS = {
 "C01": dict(
   text="TLC enumerates configurations x stored subsets x storage orders x queries x widths x depths of CheckCases.tla, checks on the model that the engine design equals RefSem when limits are not binding (and that RefSem agrees with an independent stratified fixpoint), and every enumerated case is replayed on the real engine (sqlite, real parser, real SQL) undisturbed and under seeded delay schedules; the answer must equal RefSem whenever the spec says the limits are not binding.",
   note="Bounded: six configuration families with universes of 7-10 tuples (all subsets in the thorough tier, a seeded sample in the quick tier), depths 1..8, widths {1,2,3,100}; schedules are perturbed, not enumerated; sqlite only.",
   technique="TLA+ model checking (TLC) + spec-generated cases replayed on the real engine", ref="4/C01"),
}
NOT_YET = "check not built yet in this session (work in progress, see DESIGN.md section 12)"

def main():
    m = {
      "version": 1,
      "setup_cmd": "python3 run/setup.py",
      "hooks": {"guard": "verif", "enable": "go test -c -tags sqlite,verif -overlay <overlay.json> ./internal/zzverif/ (see run/lib.py build_harness)",
                "baseline_off_cmd": "bash run/baseline_off.sh", "source_commits": [], "add_only": True},
      "engines": [{"name": "tlc+harness", "path": "run/check.py", "serves_properties": sorted(CHECKS),
                   "kind_free_text": "TLA+ specifications under spec/ checked with TLC; spec-generated cases and behaviours replayed on, and recorded traces validated against, the real code through a Go harness compiled into /repo's working tree"}],
      "checks": [], "not_applicable": [],
      "notes": "All checks: python3 run/check.py <ID> --tier quick|thorough. Exit 0 held, 1 violation, 2 inconclusive.",
    }
    hooks_file = os.path.join(VERIF, "run", "hooks.json")
    if os.path.exists(hooks_file):
        m["hooks"]["source_commits"] = json.load(open(hooks_file))
    for pid in ALL:
        if pid in CHECKS:
            c = CHECKS[pid]
            m["checks"].append({
              "property_id": pid, "quick_cmd": "python3 run/check.py %s --tier quick" % pid,
              "thorough_cmd": "python3 run/check.py %s --tier thorough" % pid,
              "evidence_file": "evidence/%s.json" % pid,
              "replay_cmd_template": "python3 run/check.py %s --replay {path}" % pid,
              "engine": "tlc+harness",
              "level_claimed": {"category": "model_checking", "text": c["text"], "design_ref": c["ref"]},
              "level_note": c["note"], "technique": c["technique"]})
        else:
            m["not_applicable"].append({"property_id": pid, "reason": NOT_YET})
    json.dump(m, open(os.path.join(VERIF, "MANIFEST.json"), "w"), indent=1)

if __name__ == "__main__":
    main()
