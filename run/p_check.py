"""C01, C02, C03, C15: the check engine. TLC (CheckCases.tla) enumerates the case space, checks
the design-level claims and prints the oracle; the harness replays every case on the real engine."""
import json, os, sys
import lib
from lib import *
from lib import ABORTS

FAMS_QUICK = ["rw", "nest", "plain", "rec", "strictx", "alias"]
FAMS_C01 = FAMS_QUICK + ["diam", "ttu2", "cyc", "ord", "ssq"]

# tier -> per family TLC constants
TIERS = {
    "quick": dict(sample=40, dmax=7, widths="W_2", nwid=2, ords=2, strict="{FALSE, TRUE}"),
    "thorough": dict(sample=0, dmax=8, widths="W_3", nwid=3, ords=2, strict="{FALSE, TRUE}"),
}


def gen(fam, tier, emit=True, sample=None, ords=None):
    p = TIERS[tier]
    cfg = write_cfg([
        'FamName = "%s"' % fam, "StrictSet = %s" % p["strict"], "Widths <- %s" % p["widths"],
        "Dmax = %d" % p["dmax"], "NumOrds = %d" % (ords or p["ords"]),
        "Sample = %d" % (p["sample"] if sample is None else sample), "Emit = %s" % ("TRUE" if emit else "FALSE")],
        invariants=["ClaimsHold"])
    name = "CheckGen_%s.cfg" % fam
    r = tlc("CheckCases", name, files={name: cfg}, extra=["-seed", str(seed())], timeout=3000)
    return r


def oracle(tier, fams, ck, sample=None, ords=None):
    """returns defs {fam: def}, groups [ {f, st, s, o, conf, q:[{ref, w:[{a,i,sh,nb,mc,nc}]}]} ]"""
    defs, groups = {}, []
    for fam in fams:
        r = gen(fam, tier, sample=sample, ords=ords)
        ck.add_tlc(r)
        if r.violation:
            ck.violation("TLC: design-level claim fails in CheckCases family %s: %s" % (fam, r.violation),
                         {"family": fam, "tlc": r.raw_tail[-3000:]})
            continue
        for l in r.lines:
            if "def" in l:
                defs[l["def"]] = l
            else:
                groups.append(l)
    return defs, groups


def harness_groups(groups):
    return [{"f": g["f"], "st": g["st"], "s": g["s"], "o": g["o"]} for g in groups]


def run_plain(binary, defs, groups, gdepth, rdepths, scheds=0, widths=None, bdepths=None):
    inp = {"defs": defs, "groups": harness_groups(groups), "gdepth": gdepth, "rdepths": rdepths,
           "scheds": scheds, "mode": "plain", "widths": widths or [], "bdepths": bdepths or []}
    recs = run_harness(binary, "check", inp)
    out = {}
    for r in recs:
        out[(r["g"], r["w"], r["run"])] = r
    return out


def case_id(g, wi, qi, d, defs):
    df = defs[g["f"]]
    return {"family": g["f"], "strict": g["st"], "stored": [df["U"][i - 1] for i in g["s"]], "order": g["o"],
            "query": df["Q"][qi], "depth": d, "width": df["widths"][wi]}


def eff(r, g):
    return g if (r <= 0 or g < r) else r


def wide_nodes(ck, binary, tier):
    """nodes with more subject sets than the storage layer fetches per statement (1000): Traverse.tla"""
    cfg = write_cfg(['Mode = "small"', "MaxN = %d" % (7 if tier == "quick" else 9), "PS = 3"], invariants=["ScanCorrect"])
    r = tlc("Traverse", "a.cfg", files={"a.cfg": cfg}, want_lines=False, workers=8, heap="2g")
    ck.add_tlc(r)
    if r.violation:
        ck.violation("Traverse.tla: " + r.violation, {"tlc": r.raw_tail[-2000:]})
    cfg = write_cfg(['Mode = "sizes"', "MaxN = 0", "PS = 1000"], invariants=["ScanCorrect"])
    z = tlc("Traverse", "b.cfg", files={"b.cfg": cfg}, workers=8, heap="2g", javaopts=["-Xss256m"])
    ck.add_tlc(z)
    cases = [l for l in z.lines if "n" in l]
    if tier == "quick":
        cases = [c for c in cases if c["n"] in (0, 1, 999, 1001, 2001)]
    recs = {x["case"]: x for x in run_harness(binary, "traverse", {"cases": [{"n": c["n"], "found": c["found"]} for c in cases]})}
    for i, c in enumerate(cases):
        ob = recs.get(i)
        if ob is None:
            raise Inconclusive("wide case %d not replayed" % i)
        ck.evaluations += 1
        cid = {"subject_sets_on_node": c["n"], "directly_containing_the_subject": c["found"]}
        if ob.get("traversal_timeout") or any(ob.get("check_%s_timeout" % w) for w in ("u", "v", "nobody")):
            ck.violation("a traversal or check on a node with %d subject sets had not finished after 10 s" % c["n"], dict(cid, error=ob.get("error", "")[:200]))
            continue
        if ob.get("error"):
            ck.violation("traversal failed: " + ob["error"][:200], cid)
            continue
        if ob["count"] != c["count"] or (c["count"] and (ob["last"] != c["last"] or ob["first"] != 1 or not ob["consecutive"])):
            ck.violation("TraverseSubjectSetExpansion returned %d rows (last %s), the traversal model says %d (last %d)" % (
                ob["count"], ob.get("last"), c["count"], c["last"]), cid)
        if ob["nfound"] != (1 if c["found"] else 0):
            ck.violation("TraverseSubjectSetExpansion reports %d found rows" % ob["nfound"], cid)
        # the engine on the same node: u is a direct member of the found sets, v is two hops below set `deep`, nobody is nowhere
        want = {"u": bool(c["found"]), "v": c["n"] > 0, "nobody": False}
        for who, w in want.items():
            if ob["check_" + who] != w:
                ck.violation("check on a node with %d subject sets answered %s for a subject that is %s a member (width and depth not binding)" % (
                    c["n"], ob["check_" + who], "" if w else "not"), dict(cid, subject=who, second_hop_below_row=ob["deep"], error=ob.get("check_%s_err" % who)))
        if c["n"] > 1000:
            ck.nontrivial.add(("wide", c["n"], tuple(c["found"])))
    ck.extra["wide_node_cases"] = len(cases)


def wide_faults(ck, binary, tier):
    """C03 on nodes wider than one storage statement: Traverse.tla with a failing statement, then every SQL statement of the
    real check fails once"""
    cfg = write_cfg(['Mode = "small"', "MaxN = %d" % (6 if tier == "quick" else 8), "PS = 3"], invariants=["ScanCorrect", "FaultClosed"])
    r = tlc("Traverse", "a.cfg", files={"a.cfg": cfg}, want_lines=False, workers=8, heap="2g")
    ck.add_tlc(r)
    if r.violation:
        ck.violation("Traverse.tla: " + r.violation, {"tlc": r.raw_tail[-2000:]})
    ns = [(1001, [1001]), (2001, [2001]), (1500, [1200]), (2001, [])] if tier == "quick" else \
         [(1001, [1001]), (2001, [2001]), (1500, [1200]), (2001, []), (1001, [1]), (2000, [1000]), (2000, [1001]), (3001, [3001]), (999, [999])]
    recs = {x["case"]: x for x in run_harness(binary, "traverse", {"cases": [{"n": n, "found": f} for n, f in ns], "sqlfaults": True})}
    nfault = 0
    for i, (n, f) in enumerate(ns):
        ob = recs.get(i)
        if ob is None:
            raise Inconclusive("wide fault case %d not replayed" % i)
        for who in ("u", "v", "nobody"):
            base, codes = ob["sqlbase_" + who], ob["sqlfault_" + who]
            want = {"u": bool(f), "v": n > 0, "nobody": False}[who]
            if base != ("I" if want else "N"):
                ck.violation("check on a node with %d subject sets answered %s for subject %s" % (n, base, who), {"subject_sets": n, "found_rows": f})
            if not codes:
                raise Inconclusive("no SQL statement seen for the wide-node check")
            for k, c in zip(ob["sqlks_" + who], codes):
                ck.evaluations += 1
                nfault += 1
                if c not in ("E", base):
                    ck.violation("a failing SQL statement (the %d-th of %d) during a check on a node with %d subject sets gave %s; without the fault the answer is %s"
                                 % (k, ob["sqlstmts_" + who], n, {"I": "allowed", "N": "denied", "X": "allowed together with an error", "U": "unknown"}.get(c, c), base),
                                 {"subject_sets_on_node": n, "rows_directly_containing_the_subject": f, "subject": who, "failing_statement": k,
                                  "outcomes_per_failing_statement": codes, "fault_free": base})
                if c == "E" and n > 1000:
                    ck.nontrivial.add(("widefault", n, tuple(f), who, k))
    ck.extra["wide_node_sql_fault_runs"] = nfault


def c01(tier):
    ck = Check("C01", tier)
    binary = build_harness()
    p = TIERS[tier]
    wide_nodes(ck, binary, tier)
    defs, groups = oracle(tier, FAMS_C01, ck)
    dmax = p["dmax"]
    rdepths = list(range(1, dmax + 1))
    scheds = 2 if tier == "quick" else 3
    res = run_plain(binary, defs, groups, dmax, rdepths, scheds=scheds)
    drift = 0
    nb_cases = 0
    for gi, g in enumerate(groups):
        df = defs[g["f"]]
        for wi in range(len(df["widths"])):
            for run in range(scheds + 1):
                r = res.get((gi, wi, run))
                if r is None:
                    if ABORTS:
                        continue
                    raise Inconclusive("missing harness result for group %d" % gi)
                if r["leak"]:
                    pass  # goroutine accounting is C15's business
                for qi, q in enumerate(g["q"]):
                    line = q["w"][wi]
                    real = r["res"][qi]
                    for di, d in enumerate(rdepths):
                        ck.evaluations += 1
                        c = real[di]
                        if c == "H":
                            raise Inconclusive("check did not return: %s" % json.dumps(case_id(g, wi, qi, d, defs)))
                        if c != line["a"][di]:
                            drift += 1
                        if line["nb"][di] == "1" and (not g["st"] or g["conf"]):
                            nb_cases += 1
                            want = "I" if q["ref"] else "N"
                            key = (g["f"], g["st"], tuple(g["s"]), g["o"], qi, d, wi)
                            if q["ref"] or len(g["s"]) >= 2:
                                ck.nontrivial.add(key)
                            if c != want:
                                ck.violation("check answered %s, RefSem says %s, limits not binding (schedule run %d)" % (c, want, run),
                                             dict(case_id(g, wi, qi, d, defs), observed=c, expected=want, run=run))
                            elif run == 0 and q["ref"]:
                                ck.sample(dict(case_id(g, wi, qi, d, defs), observed=c, refsem=q["ref"]))
    ck.extra["model_drift"] = drift
    ck.extra["not_binding_cases"] = nb_cases
    ck.extra["schedules_per_case"] = scheds + 1
    ck.rule = ("TLC enumerates (family, mode, stored subset, storage order) states of CheckCases.tla and evaluates "
               "RefSem and NotBinding for every query, width and depth; each is replayed on the real engine "
               "undisturbed and under seeded delay schedules. Non-trivial: limits not binding and (RefSem allowed or >= 2 stored tuples).")
    ck.exhaustive = (p["sample"] == 0)
    ck.assumptions = ["sqlite in-memory backend only", "strict mode asserted on stores that conform to the declared types",
                      "for nodes with 999..2001 subject sets the expected check answer is the reference semantics by construction of the case (direct member / two hops / nowhere); the page loop itself is specified by Traverse.tla",
                      "schedules are perturbed by seeded delays at storage calls, not enumerated"]
    ck.finish()


if __name__ == "__main__":
    pass


def fail_open_known(line, di):
    """the recorded finding: 'unknown' (limit reached) collapses to not-member and a negation turns it into allowed"""
    return line["a"][di] == "I" and line["i"][di] != "I" and line["nb"][di] == "0"


def c02(tier):
    ck = Check("C02", tier)
    binary = build_harness()
    p = TIERS[tier]
    defs, groups = oracle(tier, FAMS_QUICK, ck)
    dmax = p["dmax"]
    # run A: global depth = dmax, request depths 1..dmax (effective depth = request depth) plus out-of-range requests
    extra_r = [-3, 0, dmax + 1, dmax + 5]
    rdA = list(range(1, dmax + 1)) + extra_r
    bdA = [dmax + 1, dmax + 5, 0, 2]
    resA = run_plain(binary, defs, groups, dmax, rdA, scheds=1, bdepths=bdA)
    # run B: a lower global depth; every request is clamped to eff(r, g2)
    g2 = 3
    rdB = [-2, 0, 1, 2, 3, 4, dmax + 2]
    bdB = [4, dmax + 2, -2, 2]
    resB = run_plain(binary, defs, groups, g2, rdB, scheds=0, bdepths=bdB)
    batch_cmp = 0
    hung = [0]   # checks that did not return: termination is C15's verdict; here they only leave a comparison out

    def batch_agrees(r, rd, bd, g, wi, gdepth):
        """every batch transport, at request depth d, answers entry by entry what the single check answers at d on the same server"""
        nonlocal batch_cmp
        for bi, d in enumerate(bd):
            for tr, key in (("engine BatchCheck", "pbe"), ("gRPC BatchCheck", "pbg"), ("REST batch check", "pbr")):
                got = (r.get(key) or [])
                if bi < len(got) and got[bi] == "H":
                    hung[0] += 1
                    continue
                if bi >= len(got) or len(got[bi]) != len(g["q"]):
                    raise Inconclusive("batch result missing (%s, depth %d): %r" % (tr, d, got[bi] if bi < len(got) else None))
                for qi, q in enumerate(g["q"]):
                    batch_cmp += 1
                    ck.evaluations += 1
                    single = r["res"][qi][rd.index(d)].replace("U", "N")
                    if got[bi][qi] != single and not (single == "H"):
                        ck.violation("%s at request depth %d (server limit %d) answers %s for an entry whose single check answers %s"
                                     % (tr, d, gdepth, got[bi][qi], single),
                                     dict(case_id(g, wi, qi, d, defs), observed=got[bi][qi], expected=single, global_depth=gdepth, transport=tr))

    known = known_findings("C02")
    kf = {f["id"]: f for f in known}
    clamp_cases = 0
    for gi, g in enumerate(groups):
        df = defs[g["f"]]
        for wi in range(len(df["widths"])):
            for run in (0, 1):
                r = resA.get((gi, wi, run))
                if r is None:
                    if ABORTS:
                        continue
                    raise Inconclusive("missing harness result")
                if run == 0:
                    batch_agrees(r, rdA, bdA, g, wi, dmax)
                for qi, q in enumerate(g["q"]):
                    line = q["w"][wi]
                    real = r["res"][qi]
                    for di, d in enumerate(rdA):
                        ck.evaluations += 1
                        c = real[di]
                        e = eff(d, dmax)
                        # the limits bound the exploration: never more storage calls than the spec's exhaustive evaluation within them
                        if r["calls"][qi][di] > line["mc"][e - 1]:
                            ck.violation("a check with depth limit %d and width limit %d issued %d storage calls; exploring everything within these limits takes at most %d"
                                         % (e, df["widths"][wi], r["calls"][qi][di], line["mc"][e - 1]),
                                         dict(case_id(g, wi, qi, d, defs), observed=c, calls=r["calls"][qi][di], bound=line["mc"][e - 1]))
                        if c == "H":
                            hung[0] += 1
                            continue
                        # fail closed: allowed under any limit implies allowed by the unbounded semantics
                        if c in "IX" and not q["ref"]:
                            if "C02-unknown-collapse" in kf and fail_open_known(line, e - 1):
                                ck.known("C02-unknown-collapse", "depth/width cut-off below a negation is answered allowed")
                            else:
                                ck.violation("allowed under limits (depth %d, width %d) but denied by RefSem" % (e, df["widths"][wi]),
                                             dict(case_id(g, wi, qi, d, defs), observed=c, refsem=False, model_asis=line["a"][e - 1], model_3valued=line["i"][e - 1]))
                        if line["nb"][e - 1] == "0":
                            ck.nontrivial.add((g["f"], g["st"], tuple(g["s"]), g["o"], qi, e, wi))
                        # clamp inside one server: out-of-range requests mean the global limit
                        if d != e:
                            clamp_cases += 1
                            same = real[rdA.index(e)]
                            if c != same and same != "H":
                                ck.violation("request depth %d on a server with limit %d answered %s, but depth %d answers %s" % (d, dmax, c, e, same),
                                             dict(case_id(g, wi, qi, d, defs), observed=c, expected=same, global_depth=dmax))
            # clamp across servers: (r, g2) behaves as (eff(r, g2), g) on the same stored state
            rb = resB.get((gi, wi, 0))
            ra = resA.get((gi, wi, 0))
            if rb is None or ra is None:
                if ABORTS:
                    continue
                raise Inconclusive("missing harness result (run B)")
            batch_agrees(rb, rdB, bdB, g, wi, g2)
            for qi, q in enumerate(g["q"]):
                line = q["w"][wi]
                for di, d in enumerate(rdB):
                    ck.evaluations += 1
                    clamp_cases += 1
                    e = eff(d, g2)
                    c = rb["res"][qi][di]
                    same = ra["res"][qi][rdA.index(e)]
                    if "H" in (c, same):
                        hung[0] += 1
                    elif c != same:
                        ck.violation("request depth %d on a server with limit %d answered %s; a server with limit %d answers %s" % (d, g2, c, e, same),
                                     dict(case_id(g, wi, qi, d, defs), observed=c, expected=same, global_depth=g2))
                    elif d != e and c == "I":
                        ck.sample(dict(case_id(g, wi, qi, d, defs), global_depth=g2, effective=e, observed=c))
    if hung[0] and not ck.violations:
        raise Inconclusive("%d check(s) did not return within 10 s; termination is decided by C15" % hung[0])
    # every recorded witness must still reproduce; otherwise the entry is stale
    for f in known:
        if f["id"] not in ck.known_hits and not ck.violations:
            raise Inconclusive("known finding %s did not reproduce on its witness: remove it from known_findings.json" % f["id"])
    if not hung[0]:
        import p_reconf
        p_reconf.reconf(ck, binary, tier, "C02")
        # the per-request depth belongs to ITS request: checks of one tuple at every depth 1..8, released together, must each answer
        # what they answer alone (the stored state makes the answers of these queries depend on the depth)
        rw = defs["rw"]
        rounds = 24 if tier == "quick" else 160
        dq = [q for q in rw["Q"] if q[2] in ("v", "both", "viapar", "either")]
        cin = {"def": rw, "states": [list(range(1, len(rw["U"]) + 1))], "queries": dq, "rounds": rounds, "par": 32, "only": "depth"}
        crecs = [x for x in run_harness(binary, "conc", cin, shards=8) if "round" in x]
        if len(crecs) < rounds:
            raise Inconclusive("only %d of %d concurrent depth rounds ran" % (len(crecs), rounds))
        for x in crecs:
            ck.evaluations += x["requests"]
            for d in x["diffs"] or []:
                ck.violation("a check answered differently when checks of the same relationship with other max-depth values were in flight", dict(d, round=x["round"]))
        ck.extra["concurrent_depth_rounds"] = len(crecs)
    ck.extra["clamp_comparisons"] = clamp_cases
    ck.extra["batch_entry_comparisons"] = batch_cmp
    ck.rule = ("cases of CheckCases.tla at every depth 1..%d and width, plus out-of-range request depths and a second "
               "server with global depth %d; the same queries as one batch through engine, gRPC and REST batch check at in-range and out-of-range request "
               "depths must answer entry by entry like the single check; non-trivial: the spec says the limits are binding for the case" % (dmax, g2))
    ck.exhaustive = (p["sample"] == 0)
    ck.assumptions = ["sqlite in-memory backend only", "attribution of the recorded fail-open finding is by exact agreement with the as-is model (collapse on) and disagreement of the three-valued model"]
    ck.finish()


def c03(tier):
    ck = Check("C03", tier)
    binary = build_harness()
    p = TIERS[tier]
    sample = 12 if tier == "quick" else 60
    defs, groups = oracle(tier, ["rw", "nest", "rec", "plain", "strictx", "ttu2"], ck, sample=sample, ords=1)
    dmax = p["dmax"]
    rdepths = [3, dmax] if tier == "quick" else [2, 3, 5, dmax]
    inp = {"defs": defs, "groups": harness_groups(groups), "gdepth": dmax, "rdepths": rdepths, "mode": "fault",
           "widths": [len(next(iter(defs.values()))["widths"]) - 1]}
    recs = run_harness(binary, "check", inp)
    positions = 0
    hung = 0
    for r in recs:
        g = groups[r["g"]]
        if r["q"] >= 0:
            base = r["base"]
            for kind, s in (("transient", r.get("ft", "")), ("persistent", r.get("fp", "")), ("canceled", r.get("fc", "")),
                            ("SQL statement, transient", r.get("st", "")), ("SQL statement, persistent", r.get("sp", "")),
                            ("SQL statement, lock conflict", r.get("sl", ""))):
                for k, c in enumerate(s, 1):
                    ck.evaluations += 1
                    positions += 1
                    cid = dict(case_id(g, r["w"], r["q"], r["d"], defs), fault={"k": k, "kind": kind}, fault_free=base, observed=c, calls=r.get("n", 0))
                    if c == "H" or base == "H":
                        hung += 1
                        continue  # termination (also under faults) is C15's business
                    if k <= (r.get("sn", 0) if kind.startswith("SQL") else r.get("n", 0)) and c != base:
                        ck.nontrivial.add((r["g"], r["q"], r["d"], kind, k))
                    if c == "X":
                        ck.violation("result carries an error and says allowed", cid)
                    elif c == "I" and base != "I":
                        ck.violation("storage failure turned a denied check into allowed", cid)
                    elif c not in ("E", base) and not (c in "NU" and base in "NU"):
                        ck.violation("result under a storage failure is neither an error nor the fault-free answer", cid)
                    elif c == "E" and kind == "transient" and len(ck.samples) < 4 and base == "I":
                        ck.sample(cid)
        else:
            base = r["bbase"]
            for name in ("be", "bg", "br"):
                for k, s in enumerate(r.get(name, []), 1):
                    for i, c in enumerate(s):
                        ck.evaluations += 1
                        cid = {"family": g["f"], "strict": g["st"], "stored": [defs[g["f"]]["U"][j - 1] for j in g["s"]],
                               "batch_entry": i, "transport": name, "fault_k": k, "fault_free": base, "observed": s}
                        if c == "H" or base == "H":
                            hung += 1
                        elif c == "X":
                            ck.violation("batch entry carries an error and says allowed", cid)
                        elif c == "!":
                            pass
                        elif i < len(base) and c == "I" and base[i] != "I":
                            ck.violation("storage failure turned a denied batch entry into allowed", cid)
    ck.extra["fault_positions"] = positions
    if hung and not ck.violations:
        raise Inconclusive("%d check(s) did not return within 10 s; termination is decided by C15" % hung)
    wide_faults(ck, binary, tier)
    ck.rule = ("for every sampled case the fault-free run is counted (N storage calls), then call k = 1..N+1 fails once, "
               "persistently, and with context.Canceled; at the deepest request depth the same sweep one layer down, on the SQL statements inside the "
               "database driver (once, from the k-th statement on, and once with SQLite's lock-conflict error); on nodes with more subject sets than one storage statement fetches (1001..3001) every SQL "
               "statement of the check fails once (Traverse.tla FaultClosed: error or the complete result, never a prefix); non-trivial: the fault changed the outcome")
    ck.assumptions = ["faults are injected at the Manager/Traverser interface the engine uses; inside the SQL driver only for the wide-node cases",
                      "call numbering follows arrival order under the engine's own concurrency"]
    ck.finish()


def c15(tier):
    ck = Check("C15", tier)
    binary = build_harness()
    p = TIERS[tier]
    sample = 10 if tier == "quick" else 50
    fams = ["rw", "nest", "rec", "plain", "cyc"]
    defs, groups = oracle(tier, fams, ck, sample=sample, ords=1)
    dmax = p["dmax"]
    rdepths = [3, dmax] if tier == "quick" else [2, 4, dmax]
    wlast = [len(next(iter(defs.values()))["widths"]) - 1]
    # 1. plain runs: termination and the bound on storage calls
    res = run_plain(binary, defs, groups, dmax, list(range(1, dmax + 1)), scheds=1, widths=wlast)
    for (gi, wi, run), r in res.items():
        g = groups[gi]
        for qi, q in enumerate(g["q"]):
            line = q["w"][wi]
            for di in range(dmax):
                ck.evaluations += 1
                if r["res"][qi][di] == "H":
                    ck.violation("check did not return within 10 s", case_id(g, wi, qi, di + 1, defs))
                elif r["calls"][qi][di] > line["mc"][di]:
                    ck.violation("check issued %d storage calls, the exhaustive evaluation of the spec issues at most %d" % (r["calls"][qi][di], line["mc"][di]),
                                 dict(case_id(g, wi, qi, di + 1, defs), calls=r["calls"][qi][di], bound=line["mc"][di]))
    if any("did not return" in v[0] for v in ck.violations):
        # the goroutines of a check that never returns keep their processors: nothing measured after this point would mean anything
        ck.rule = "stopped after the first phase: checks that do not return"
        ck.finish()
        return
    # 2. cancellation at every instant
    transport_cancels = [0]
    inp = {"defs": defs, "groups": harness_groups(groups), "gdepth": dmax, "rdepths": rdepths, "mode": "cancel", "widths": wlast}
    recs = run_harness(binary, "check", inp)
    for r in recs:
        g = groups[r["g"]]
        line = g["q"][r["q"]]["w"][r["w"]]
        for k, c in enumerate(r["ca"]):
            ck.evaluations += 1
            cid = dict(case_id(g, r["w"], r["q"], r["d"], defs), cancel_before_call=k, observed=c, fault_free=r["base"], calls=r["n"])
            if 0 < k <= r["n"]:
                ck.nontrivial.add((r["g"], r["q"], r["d"], k))
            if c == "H":
                ck.violation("cancelled check did not return within 10 s", cid)
            elif c not in ("E", r["base"]) and not (c in "NU" and r["base"] in "NU"):
                # the result and the cancellation race in the final select: an error or the answer the check gives anyway
                ck.violation("a cancelled check returned %s: neither an error nor the answer it gives without cancellation (%s)" % (c, r["base"]), cid)
            elif r["cl"][k] > 0:
                ck.violation("%d goroutine(s) of the check still alive 5 s after it returned and its context was cancelled" % r["cl"][k],
                             dict(cid, goroutine=r.get("leaks", "")[:1500]))
            elif r["cn"][k] > line["mc"][r["d"] - 1]:
                ck.violation("storage calls exceed the bound", dict(cid, calls=r["cn"][k], bound=line["mc"][r["d"] - 1]))
            elif 0 < k <= r["n"] and len(ck.samples) < 4:
                ck.sample(cid)
        # the same cancellation through the API handlers, with storage that is slow (8 s) unless its context is done
        for tr, k, ms, status in r.get("tc") or []:
            if status == "skipped":
                continue
            ck.evaluations += 1
            transport_cancels[0] += 1
            cid = dict(case_id(g, r["w"], r["q"], r["d"], defs), transport=tr, cancel_before_call=k, elapsed_ms=ms, status=status)
            if status == "hang":
                ck.violation("a cancelled %s check did not return within 10 s" % tr, cid)
            elif str(status).startswith("panic"):
                ck.violation("a cancelled %s check panicked: %s" % (tr, status), cid)
            elif ms > 4000:
                ck.violation("a %s check whose request context was cancelled before storage call %d returned only after %d ms: the cancellation "
                             "does not reach the storage calls (they return at once when their context is done, after 8 s otherwise)" % (tr, k, ms), cid)
            ck.nontrivial.add((r["g"], r["q"], r["d"], tr, k))
    # 3. faults: the check still returns
    inp = {"defs": defs, "groups": harness_groups(groups), "gdepth": dmax, "rdepths": rdepths[-1:], "mode": "fault", "widths": wlast}
    recs = run_harness(binary, "check", inp)
    for r in recs:
        if r["q"] < 0:
            continue
        g = groups[r["g"]]
        line = g["q"][r["q"]]["w"][r["w"]]
        for kind in ("ft", "fp", "fc"):
            for k, c in enumerate(r.get(kind, ""), 1):
                ck.evaluations += 1
                if c == "H":
                    ck.violation("check with failing storage call %d (%s) did not return within 10 s" % (k, kind),
                                 dict(case_id(g, r["w"], r["q"], r["d"], defs), fault={"k": k, "kind": kind}, calls=r["n"]))
        for k, n in enumerate(r.get("fn", []), 1):
            if n > line["mc"][r["d"] - 1] + 0:
                ck.violation("storage calls under a fault exceed the bound", dict(case_id(g, r["w"], r["q"], r["d"], defs), calls=n, bound=line["mc"][r["d"] - 1]))
    # 4. very wide nodes: the paging loop of the storage layer ends, after ceil((n+1)/1000) statements
    wide = [(999, []), (1000, []), (1001, [1001]), (2001, [])] if tier == "quick" else [(999, []), (1000, []), (1000, [1000]), (1001, [1001]), (2000, []), (2001, []), (3001, [2999])]
    recs = {x["case"]: x for x in run_harness(binary, "traverse", {"cases": [{"n": n, "found": f} for n, f in wide]})}
    for i, (n, f) in enumerate(wide):
        ob = recs.get(i)
        if ob is None:
            raise Inconclusive("wide case %d not replayed" % i)
        ck.evaluations += 1
        cid = {"subject_sets_on_node": n, "directly_containing_the_subject": f}
        first = min(f) if f else n
        bound = first // 1000 + 1
        if ob.get("traversal_timeout") or any(ob.get("check_%s_timeout" % w) for w in ("u", "v", "nobody")):
            ck.violation("a traversal or check on a node with %d subject sets had not finished after 10 s" % n, dict(cid, error=ob.get("error", "")[:200]))
        elif ob["traversal_statements"] > bound:
            ck.violation("the traversal of a node with %d subject sets issued %d statements (bound %d)" % (n, ob["traversal_statements"], bound), cid)
        ck.nontrivial.add(("wide", n, tuple(f)))
    checkgroup_model(ck, tier)
    cg_traces(ck, binary, defs, groups[: (40 if tier == "quick" else 200)], dmax, tier)
    ck.extra["cancellations_through_api_handlers"] = transport_cancels[0]
    # requests with a deadline on a long-lived server whose limits and namespaces (literal, and in a watched OPL file) change between them
    import p_reconf
    p_reconf.reconf(ck, binary, tier, "C15")
    ck.rule = ("sampled CheckCases.tla cases; context cancelled before the call and at the gate before every storage call k (engine), and at the first, middle and last "
               "storage call through the REST, gRPC and gRPC batch handlers with storage that honours its context and is slow otherwise; "
               "every storage call failing; goroutine dump after return; non-trivial: cancellation landed while the check was running")
    ck.assumptions = ["'returns' is decided with a 10 s grace period, 'no goroutine remains' by goroutine dumps polled for 5 s",
                      "the bound on storage calls is the call count of the spec's exhaustive (no short-circuit) evaluation"]
    ck.finish()


def checkgroup_model(ck, tier):
    """exhaustive TLC runs of the checkgroup protocol: safety invariants and the leak (liveness) property"""
    for nadds in ([2, 3] if tier == "quick" else [2, 3, 4]):
        for ucf in ("TRUE", "FALSE"):
            cfg = write_cfg(["NAdds = %d" % nadds, "UseCheckFunc = %s" % ucf],
                            invariants=["TypeOK", "AtMostOneInFlight", "ResultSound", "NoDecisionFromForeignCancel", "DrainExact"],
                            properties=["NoLeak"])
            r = tlc("Checkgroup", "cg.cfg", files={"cg.cfg": cfg}, workers=4, heap="2g", want_lines=False)
            ck.add_tlc(r)
            if r.violation:
                ck.violation("Checkgroup.tla (NAdds=%d, CheckFunc=%s): %s" % (nadds, ucf, r.violation), {"tlc": r.raw_tail[-3000:]})


def validate_cg_trace(ck, path_or_text, label, expect_accept=True):
    cfg = ('SPECIFICATION Spec\nCONSTANT TraceFile = "cg.ndjson"\nINVARIANT AtMostOneInFlight\n'
           'POSTCONDITION Accepted\nCHECK_DEADLOCK FALSE\n')
    r = tlc("TraceCheckgroup", "tcg.cfg", files={"tcg.cfg": cfg, "cg.ndjson": path_or_text}, workers=1, heap="2g",
            want_lines=False)
    return r.ok


def cg_traces(ck, binary, defs, groups, dmax, tier):
    sc = scratch()
    tpath = os.path.join(sc, "cgtrace")
    inp = {"defs": defs, "groups": harness_groups(groups), "gdepth": dmax, "rdepths": [dmax], "mode": "trace",
           "widths": [len(next(iter(defs.values()))["widths"]) - 1]}
    recs = run_harness(binary, "check", inp, extra=["-verif.trace", tpath])
    ntr = sum(r.get("traces", 0) for r in recs)
    nev = sum(r.get("events", 0) for r in recs)
    text = ""
    import glob as _g
    for f in sorted(_g.glob(tpath + ".*")):
        text += open(f).read()
    if ntr == 0:
        raise Inconclusive("no checkgroup traces recorded (hook H2 missing?)")
    lines = text.splitlines()
    cap = 150000 if tier == "quick" else 600000
    if len(lines) > cap:      # cut at a trace boundary
        i = cap
        while i < len(lines) and '"ev":"start"' not in lines[i]:
            i += 1
        lines = lines[:i]
        text = "\n".join(lines) + "\n"
        ntr = sum(1 for l in lines if '"ev":"start"' in l)
    ok = validate_cg_trace(ck, text, "recorded")
    ck.traces += ntr
    ck.extra["checkgroup_trace_events"] = len(lines)
    if not ok:
        ck.violation("a recorded checkgroup consumer log is not a behaviour of Checkgroup.tla's consumer", {"trace_events": len(lines)})
        return
    ck.sample({"checkgroup_trace_head": [json.loads(l) for l in lines[:8]]})
    # the binding is demonstrated: a corrupted counter and a dropped event must be rejected
    import random
    rnd = random.Random(seed())
    exits = [i for i, l in enumerate(lines) if '"ev":"exit"' in l]
    results = [i for i, l in enumerate(lines) if '"ev":"result"' in l]
    i = rnd.choice(exits)
    ev = json.loads(lines[i]); ev["total"] += 1
    bad1 = lines[:i] + [json.dumps(ev)] + lines[i + 1:]
    j = rnd.choice(results)
    bad2 = lines[:j] + lines[j + 1:]
    for name, bl in (("corrupted exit counter", bad1), ("dropped result event", bad2)):
        if validate_cg_trace(ck, "\n".join(bl) + "\n", name):
            raise Inconclusive("self-test failed: trace with %s was accepted" % name)
    ck.extra["trace_selftests_rejected"] = 2
