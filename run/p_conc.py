"""C14: LazyInit.tla + concurrent vs alone replies under the race detector"""
import glob, json, os, re
import lib
from lib import *
import p_check
from p_api import QUERIES, STATES


def c14(tier):
    ck = Check("C14", tier)
    binary = build_harness(race=True, name="harness_race.test")
    for sync_ in ("TRUE",):
        cfg = write_cfg(["Procs = {1, 2, 3}", "Synchronised = %s" % sync_], invariants=["RaceFree", "Singleton"])
        r = tlc("LazyInit", "l.cfg", files={"l.cfg": cfg}, want_lines=False, workers=4, heap="2g")
        ck.add_tlc(r)
        if r.violation:
            ck.violation("LazyInit.tla: " + r.violation, {"tlc": r.raw_tail[-2000:]})
    # the unsynchronised getter must be racy on the model (a regression test of the model itself)
    cfg = write_cfg(["Procs = {1, 2}", "Synchronised = FALSE"], invariants=["RaceFree"])
    r = tlc("LazyInit", "l2.cfg", files={"l2.cfg": cfg}, want_lines=False, workers=2, heap="2g")
    if not r.violation:
        raise Inconclusive("LazyInit.tla does not exhibit the race of an unsynchronised getter")
    dck = Check("C14", tier)
    defs, _ = p_check.oracle("quick", ["rw", "ord"], dck, sample=1, ords=1)
    ck.states += dck.states; ck.transitions += dck.transitions
    rounds, par = (24, 16) if tier == "quick" else (160, 48)
    inp = {"def": defs["rw"], "states": [s for s in STATES if s], "queries": [q for q, c in QUERIES if c == "valid"], "rounds": rounds, "par": par}
    lib.CRASHED.clear()
    sc = scratch()
    recs = run_harness(binary, "conc", inp, shards=8, tolerate_crash=True, timeout=2400,
                       env_extra={"GORACE": "halt_on_error=0 history_size=5"})
    # the same rounds over the family whose permissions declare their operands most-expensive-first (an implementation that
    # reorders or caches per-relation plans does it on the first evaluations, which here are concurrent)
    ord_states = [[1, 2, 3, 4, 5, 6, 7, 8], [2, 3, 4, 6], [1, 4, 5], [3, 4, 6, 7], [1, 2, 3]]
    inp_ord = dict(inp, **{"def": defs["ord"], "states": ord_states, "queries": defs["ord"]["Q"], "rounds": rounds // 2})
    recs_ord = run_harness(binary, "conc", inp_ord, shards=8, tolerate_crash=True, timeout=2400,
                           env_extra={"GORACE": "halt_on_error=0 history_size=5"})
    n_ord = sum(1 for x in recs_ord if "round" in x)
    if n_ord < rounds // 2 and not lib.CRASHED:
        raise Inconclusive("only %d of %d rounds over the expensive-first family ran" % (n_ord, rounds // 2))
    ck.extra["rounds_over_permissions_declared_expensive_first"] = n_ord
    # (their cancel / mixed rounds count with the others; the read-only rounds are evaluated below under ids >= 1000)
    for x in recs_ord:
        if "round" in x:
            x["round"] += 1000
    recs_ord = [x for x in recs_ord if "cancel_round" not in x and "mixed" not in x and "burst_round" not in x]
    # requests that are REJECTED, many at a time (an error value shared between requests is written by one and read by another):
    # the fixed corner requests of C13 that read, over REST and gRPC, 16 workers in step and staggered
    rej = [("rest_list", {"namespace": "known", "object": "absent", "relation": "absent", "subject": "absent", "page_size": "-5", "page_token": "absent"}),
           ("rest_list", {"namespace": "known", "object": "absent", "relation": "absent", "subject": "absent", "page_size": "absent", "page_token": "xyz"}),
           ("grpc_list", {"query": "new", "namespace": "known", "object": "absent", "subject": "absent", "page_size": "absent", "page_token": "xyz"}),
           ("grpc_list", {"query": "neither", "namespace": "known", "object": "absent", "subject": "absent", "page_size": "absent", "page_token": "absent"}),
           ("grpc_expand", {"subject": "absent", "depth": "3"}),
           ("grpc_check", {"style": "tuple", "namespace": "known", "object": "plain", "subject": "absent", "depth": "0"}),
           ("grpc_batch", {"shape": "one", "namespace": "known", "subject": "absent", "depth": "0"}),
           ("rest_batch", {"body": "valid", "shape": "null_element", "namespace": "known", "subject": "id", "depth": "absent"})]
    freqs = [{"i": i, "ep": ep, "fields": f, "readonly": True} for i, (ep, f) in enumerate(rej * 4)]
    frecs = run_harness(binary, "fuzz", {"reqs": freqs, "conc": 16}, shards=4, tolerate_crash=True, timeout=1200,
                        env_extra={"GORACE": "halt_on_error=0 history_size=5"})
    for x in frecs:
        if "conc_done" in x:
            ck.evaluations += x["conc_done"]
            for d in x["diffs"] or []:
                ck.violation("a rejected request is answered differently when other rejected requests are in flight", d)
    ck.extra["rejected_requests_in_flight_together"] = sum(x.get("conc_done", 0) for x in frecs)
    # race reports are in the shard logs
    races = []
    for lf in glob.glob(os.path.join(sc, "in_conc_*.log")) + glob.glob(os.path.join(sc, "in_fuzz_*.log")):
        txt = open(lf, errors="replace").read()
        for m in re.finditer(r"WARNING: DATA RACE\n(.*?)\n==================", txt, re.S):
            races.append(m.group(1))
    seen = set()
    for rc in races:
        frames = [l.strip() for l in rc.splitlines() if "github.com/ory/keto" in l and "zzverif" not in l]
        key = tuple(frames[:2])
        if key in seen:
            continue
        seen.add(key)
        ck.violation("data race between concurrent requests: %s" % (frames[0] if frames else "(no keto frame)"), {"report": rc[:3000]})
    if lib.CRASHED and not races:
        raise Inconclusive("conc harness failed without a race report: %s" % lib.CRASHED[0][2][-1500:])
    # the rounds with abandoned requests once more in a binary without the race detector (which slows every request down and
    # makes sync.Pool drop and reshuffle what it holds): three times as many rounds, nothing else
    plain = build_harness(race=False, name="harness_plain.test")
    crashed_before = list(lib.CRASHED)
    recs2 = run_harness(plain, "conc", dict(inp, only="cancel", rounds=3 * rounds), shards=8, tolerate_crash=True, timeout=2400)
    if len(lib.CRASHED) > len(crashed_before) and not races:
        raise Inconclusive("conc harness (plain binary) failed: %s" % lib.CRASHED[-1][2][-1500:])
    recs = recs + [x for x in recs2 if "cancel_round" in x or "burst_round" in x]
    recs = recs + recs_ord
    want_cancel = rounds // 3 + rounds
    got = 0
    mixed = 0
    cancel_rounds = abandoned = bursts = 0
    for x in recs:
        if "mixed" in x:
            mixed += 1
            ck.evaluations += x["requests"]
            continue
        if "burst_round" in x:
            bursts += 1
            ck.evaluations += x["requests"]
            if x["different"]:
                ck.violation("%d of %d checks released together answered differently from the same check run alone (%d of them had not returned after 20 s)"
                             % (x["different"], x["requests"], x["not_returned_in_20s"]), {"round": x["burst_round"], "first_difference": x["first"]})
            continue
        if "cancel_round" in x:
            cancel_rounds += 1
            abandoned += x["abandoned"]
            ck.evaluations += x["requests"]
            for d in x["diffs"] or []:
                ck.violation("a request answered differently from the same request run alone, %s" % d.get("phase", ""), dict(d, round=x["cancel_round"]))
            continue
        if x["round"] < 1000:
            got += 1
        ck.evaluations += x["requests"]
        for d in x["diffs"] or []:
            ck.violation("a request answered differently when run concurrently with others", dict(d, round=x["round"]))
        if not x["visited_same"]:
            ck.violation("cycle-detection sets of concurrent requests differ from those of the same requests run alone (%d vs %d sets): state shared between requests" % (
                x["visited_sets_concurrent"], x["visited_sets_alone"]), {"round": x["round"]})
        if x["visited_sets_alone"] > 0:
            ck.nontrivial.add(x["round"])
    if got < rounds and not races:
        raise Inconclusive("only %d of %d rounds ran" % (got, rounds))
    ck.sample({"round": 0, "requests": par, "kinds": ["rest_check", "rest_batch", "rest_expand", "rest_list", "grpc_check", "grpc_list"]})
    if mixed < rounds // 2 and not races:
        raise Inconclusive("only %d of %d mixed read/write rounds ran" % (mixed, rounds // 2))
    ck.extra["rounds"] = got
    ck.extra["mixed_read_write_rounds"] = mixed
    ck.extra["rounds_with_abandoned_requests"] = cancel_rounds
    ck.extra["bursts_of_320_nested_checks_in_flight_together"] = bursts
    if bursts == 0 and not races:
        raise Inconclusive("no burst round ran")
    ck.extra["requests_that_failed_because_their_client_gave_up"] = abandoned
    if cancel_rounds < want_cancel and not races:
        raise Inconclusive("only %d of %d rounds with abandoned requests ran" % (cancel_rounds, want_cancel))
    ck.extra["race_reports"] = len(races)
    ck.rule = ("%d rounds of %d requests (check, batch check, expand, list over REST and gRPC) released by a barrier against a registry that has served nothing yet, in a binary built "
               "with -race; every second round is followed by a round on a fresh registry in which a third of the requests are writes (REST put / patch / delete, gRPC transact; race detector and crashes only); every third round additionally runs on a fresh registry with half of the clients giving up 5%%..95%% of the way through their request (measured alone) next to requests that run to completion, followed by a sequential pass, both compared with answers computed before any request was abandoned (these rounds run on one, two and all processors, and three times as many of them once more in a binary without the race detector); bursts of 320 nested checks parked at their first storage call until all are in flight, then released, each to answer as alone within 20 s; each reply of the read-only rounds is compared with the same request run alone, the visited sets recorded through hook H1 are compared as multisets; non-trivial: rounds in which checks expanded subject sets" % (rounds, par))
    ck.assumptions = ["data-race freedom is observed with Go's race detector on the spec-generated workload, not derived from the TLA+ model",
                      "sqlite in-memory backend only"]
    ck.finish()
