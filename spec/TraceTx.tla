------------------------------ MODULE TraceTx ------------------------------
(***************************************************************************)
(* Trace validation of the SQL statements one write request issues         *)
(* (recorded by the wrapping database/sql driver of the harness) against   *)
(* the transaction shape of StoreImpl.tla with the real chunk sizes:       *)
(*   req(nins, ndel, mapping) begin [mapins] insert* delete* commit end    *)
(* or, after a failing statement / an invalid element, rollback end.       *)
(* Many requests are concatenated in one file.                             *)
(***************************************************************************)
EXTENDS Integers, Sequences, TLC, Json

CONSTANTS TraceFile, CI, CD
Trace == ndJsonDeserialize(TraceFile)

VARIABLES l, phase, insLeft, delLeft, faulted, mapping, mapped, valid
vars == <<l, phase, insLeft, delLeft, faulted, mapping, mapped, valid>>

Init == l = 1 /\ phase = "idle" /\ insLeft = 0 /\ delLeft = 0 /\ faulted = FALSE /\ mapping = FALSE
        /\ mapped = FALSE /\ valid = TRUE
Ev(e) == l <= Len(Trace) /\ Trace[l].ev = e /\ l' = l + 1
Min(a, b) == IF a < b THEN a ELSE b
E == Trace[l]

Req == /\ Ev("req") /\ phase \in {"idle", "ended"}
       /\ phase' = "ready" /\ insLeft' = E.nins /\ delLeft' = E.ndel /\ mapping' = E.mapping /\ valid' = E.valid
       /\ faulted' = FALSE /\ mapped' = FALSE
Begin == /\ Ev("begin") /\ phase = "ready"
         /\ phase' = (IF E.err THEN "nobegin" ELSE "open") /\ faulted' = E.err
         /\ UNCHANGED <<insLeft, delLeft, mapping, mapped, valid>>
\* the handlers insert the name mappings first, inside the same transaction
MapIns == /\ Ev("mapins") /\ phase = "open" /\ mapping /\ ~mapped /\ ~faulted
          /\ E.rows >= 1
          /\ mapped' = TRUE /\ faulted' = E.err
          /\ UNCHANGED <<phase, insLeft, delLeft, mapping, valid>>
Insert == /\ Ev("insert") /\ phase = "open" /\ ~faulted /\ insLeft > 0
          /\ (mapping => mapped)
          /\ E.rows = Min(CI, insLeft)
          /\ insLeft' = insLeft - E.rows /\ faulted' = E.err
          /\ UNCHANGED <<phase, delLeft, mapping, mapped, valid>>
\* deletes come after all inserts
Delete == /\ Ev("delete") /\ phase = "open" /\ ~faulted /\ insLeft = 0 /\ delLeft > 0
          /\ E.ors = Min(CD, delLeft)
          /\ delLeft' = delLeft - E.ors /\ faulted' = E.err
          /\ UNCHANGED <<phase, insLeft, mapping, mapped, valid>>
Commit == /\ Ev("commit") /\ phase = "open" /\ ~faulted /\ insLeft = 0 /\ delLeft = 0 /\ valid
          /\ phase' = (IF E.err THEN "rolledback" ELSE "committed") /\ faulted' = E.err
          /\ UNCHANGED <<insLeft, delLeft, mapping, mapped, valid>>
Rollback == /\ Ev("rollback") /\ phase = "open" /\ (faulted \/ ~valid)
            /\ phase' = "rolledback"
            /\ UNCHANGED <<insLeft, delLeft, faulted, mapping, mapped, valid>>
\* an invalid request may be rejected by the handler before any statement is issued
End == /\ Ev("end") /\ (phase \in {"committed", "rolledback", "nobegin"} \/ (phase = "ready" /\ ~valid))
       /\ E.ok = (phase = "committed")
       /\ phase' = "ended"
       /\ UNCHANGED <<insLeft, delLeft, faulted, mapping, mapped, valid>>
Next == Req \/ Begin \/ MapIns \/ Insert \/ Delete \/ Commit \/ Rollback \/ End
Spec == Init /\ [][Next]_vars

\* exactly one transaction per request: no statement outside an open transaction
Accepted == TLCGet("stats").diameter - 1 = Len(Trace)
=============================================================================
