------------------------------- MODULE ApiReq -------------------------------
(***************************************************************************)
(* The request space of the read, write and syntax APIs (REST and gRPC),   *)
(* as a product of per-field variants: absent, null, wrong JSON type,      *)
(* empty, separator-laden, huge, negative ... and what every reply must    *)
(* satisfy, whatever the request:                                          *)
(*   - the handler returns (no panic, the process lives),                  *)
(*   - the reply is a success or a client error, never a server error      *)
(*     (storage does not fail in these runs),                              *)
(*   - a reply >= 400 leaves the stored state untouched,                   *)
(*   - read and syntax endpoints leave it untouched in any case.           *)
(* The module enumerates requests (a seeded sample of each endpoint's      *)
(* product, all of it when small); the harness instantiates and sends      *)
(* them; the runner applies ReplyOK to what came back.                     *)
(***************************************************************************)
EXTENDS Integers, Sequences, FiniteSets, TLC, Json, Randomization

CONSTANTS PerEndpoint   \* how many requests per endpoint (0 = the whole product)

Str  == {"absent", "empty", "plain", "sep", "long", "unicode", "null", "number", "object"}
Ns   == {"absent", "known", "known2", "unknown", "empty", "null", "number"}
Subj == {"absent", "id", "id_empty", "set", "set_incomplete", "set_unknownns", "both", "null", "string", "set_null_fields"}
Dep  == {"absent", "0", "3", "-1", "abc", "99999999999999999999", "1.5", "2147483648"}
PSz  == {"absent", "0", "1", "-5", "abc", "999999999999", "1e3"}
PTok == {"absent", "empty", "valid", "xyz", "uuid_unknown", "long"}
Act  == {"insert", "delete", "unknown", "absent", "null"}
Shape == {"one", "two", "empty", "null_element", "not_array", "null", "missing_tuple", "huge"}
Body == {"valid", "empty", "not_json", "array", "string", "null", "truncated", "nested_deep"}
Bytes == {"valid_opl", "empty", "garbage", "invalid_utf8", "unterminated_comment", "unterminated_string", "deep_nesting", "huge", "type_error"}

\* endpoint -> field -> variants
Endpoints == [
  rest_list        |-> [namespace |-> Ns, object |-> Str, relation |-> Str, subject |-> Subj, page_size |-> PSz, page_token |-> PTok],
  rest_check_get   |-> [namespace |-> Ns, object |-> Str, relation |-> Str, subject |-> Subj, depth |-> Dep],
  rest_check_post  |-> [body |-> Body, namespace |-> Ns, object |-> Str, relation |-> Str, subject |-> Subj, depth |-> Dep],
  rest_batch       |-> [body |-> Body, shape |-> Shape, namespace |-> Ns, subject |-> Subj, depth |-> Dep],
  rest_expand      |-> [namespace |-> Ns, object |-> Str, relation |-> Str, depth |-> Dep],
  rest_namespaces  |-> [object |-> {"absent", "plain"}],
  rest_create      |-> [body |-> Body, namespace |-> Ns, object |-> Str, relation |-> Str, subject |-> Subj],
  rest_delete      |-> [namespace |-> Ns, object |-> Str, relation |-> Str, subject |-> Subj, body |-> {"empty", "valid"}],
  rest_patch       |-> [body |-> Body, shape |-> Shape, action |-> Act, namespace |-> Ns, subject |-> Subj],
  rest_syntax      |-> [bytes |-> Bytes],
  rest_wrong_route |-> [method |-> {"GET", "PUT", "PATCH", "DELETE", "POST", "HEAD", "OPTIONS"}, router |-> {"read", "write", "syntax"},
                        path |-> {"list", "check", "batch", "expand", "admin", "syntax", "nowhere", "namespaces"}],
  grpc_list        |-> [query |-> {"new", "deprecated", "neither"}, namespace |-> Ns, object |-> Str, subject |-> Subj, page_size |-> PSz, page_token |-> PTok],
  grpc_check       |-> [style |-> {"tuple", "flat", "neither"}, namespace |-> Ns, object |-> Str, subject |-> Subj, depth |-> Dep],
  grpc_batch       |-> [shape |-> Shape, namespace |-> Ns, subject |-> Subj, depth |-> Dep],
  grpc_expand      |-> [subject |-> Subj, depth |-> Dep],
  grpc_namespaces  |-> [object |-> {"absent"}],
  grpc_transact    |-> [shape |-> Shape, action |-> Act, namespace |-> Ns, subject |-> Subj],
  grpc_delete      |-> [query |-> {"new", "deprecated", "neither"}, namespace |-> Ns, object |-> Str, subject |-> Subj],
  grpc_syntax      |-> [bytes |-> Bytes]
]
Names == DOMAIN Endpoints
ReadOnly == {"rest_list", "rest_check_get", "rest_check_post", "rest_batch", "rest_expand", "rest_namespaces", "rest_syntax",
             "grpc_list", "grpc_check", "grpc_batch", "grpc_expand", "grpc_namespaces", "grpc_syntax"}

\* all assignments of one endpoint
Product(e) == [DOMAIN Endpoints[e] -> UNION {Endpoints[e][f] : f \in DOMAIN Endpoints[e]}]
Assignments(e) == {a \in Product(e) : \A f \in DOMAIN a : a[f] \in Endpoints[e][f]}
RECURSIVE Size(_, _)
Size(e, fs) == IF fs = {} THEN 1 ELSE LET f == CHOOSE x \in fs : TRUE IN Cardinality(Endpoints[e][f]) * Size(e, fs \ {f})

\* one random assignment (field by field with the seeded RNG)
RandomAssignment(e) == [f \in DOMAIN Endpoints[e] |-> RandomElement(Endpoints[e][f])]

(***************************************************************************)
(* What a reply must satisfy.  status: HTTP status or gRPC code name;      *)
(* panicked / exited: the handler did not return normally.                 *)
(***************************************************************************)
ServerErrorREST(s) == s >= 500
ServerErrorGRPC(c) == c \in {"Internal", "Unknown", "DataLoss", "Unavailable", "Unimplemented"}
ReplyOK(ep, reply) ==
  /\ ~reply.panicked /\ ~reply.exited
  /\ (reply.kind = "rest" => ~ServerErrorREST(reply.status))
  /\ (reply.kind = "grpc" => ~ServerErrorGRPC(reply.code))
  /\ ((reply.failed \/ ep \in ReadOnly) => ~reply.state_changed)

VARIABLES ep, k, done
vars == <<ep, k, done>>
Init == ep \in Names /\ k \in 1..(IF PerEndpoint = 0 THEN 1 ELSE PerEndpoint) /\ done = FALSE
Next == /\ ~done /\ done' = TRUE /\ UNCHANGED <<ep, k>>
        /\ PrintT(ToJson([ep |-> ep, k |-> k, fields |-> RandomAssignment(ep), readonly |-> ep \in ReadOnly]))
Spec == Init /\ [][Next]_vars
=============================================================================
