#!/usr/bin/env python3
"""Sensitivity self-test: applies small hand-written mutations to /repo one at a time, runs the quick check of the
property each one breaks, reverts, and reports caught / missed. Never commits anything in /repo.
usage: python3 run/mutants.py [name-substring ...]"""
import json, os, subprocess, sys, time

REPO = "/repo"
VERIF = os.path.dirname(os.path.dirname(os.path.abspath(__file__)))

# (name, property, file, old, new)
M = [
 ("css-hop-free-again", "C15", "internal/check/rewrites.go",
  "\t\tSubject:   r.Subject,\n\t}, restDepth-1, false)\n}", "\t\tSubject:   r.Subject,\n\t}, restDepth, false)\n}"),
 ("lookup-leaks-rlock", "C19", "internal/driver/config/namespace_memory.go",
  "\treturn nil, errors.WithStack(herodot.ErrNotFound.WithReasonf(\"Unknown namespace with name %q.\", name))", "\ts.RLock()\n\treturn nil, errors.WithStack(herodot.ErrNotFound.WithReasonf(\"Unknown namespace with name %q.\", name))"),
 ("depth-off-by-one-expand", "C01", "internal/check/engine.go",
  "g.Add(e.checkExpandSubject(r, restDepth-1))", "g.Add(e.checkExpandSubject(r, restDepth-2))"),
 ("drop-skipdirect", "C15", "internal/check/engine.go",
  "if (!strictMode || !hasRewrite) && !skipDirect {", "if !strictMode || !hasRewrite {"),
 ("strict-ignores-rewrite-flag", "C01", "internal/check/engine.go",
  "canHaveSubjectSets := !strictMode || relation == nil || containsSubjectSetExpand(relation)", "canHaveSubjectSets := !strictMode || relation == nil"),
 ("no-visited-test", "C15", "internal/check/engine.go",
  "\t\t\tif visited {\n\t\t\t\tcontinue\n\t\t\t}\n", "\t\t\t_ = visited\n"),
 ("width-off-by-one", "C02", "internal/check/engine.go",
  "results = results[:maxWidth-1]", "results = results[:maxWidth+1]"),
 ("and-returns-member-on-unknown", "C02", "internal/check/binop.go",
  "if result.Err != nil || result.Membership != checkgroup.IsMember {", "if result.Err != nil || result.Membership == checkgroup.NotMember {"),
 ("clamp-ignores-global", "C02", "internal/check/engine.go",
  "restDepth <= 0 || globalMaxDepth < restDepth {", "restDepth <= 0 {"),
 ("expand-error-swallowed", "C03", "internal/check/engine.go",
  "\t\t} else if err != nil {\n\t\t\tg.Add(checkgroup.ErrorFunc(err))\n\t\t\treturn\n\t\t}", "\t\t} else if err != nil {\n\t\t\tg.Add(checkgroup.NotMemberFunc)\n\t\t\treturn\n\t\t}"),
 ("keyset-ge", "C07", "internal/persistence/sql/relationtuples.go",
  'Where("shard_id > ?", pagination.LastID)', 'Where("shard_id >= ?", pagination.LastID)'),
 ("limit-n-not-n-plus-1", "C07", "internal/persistence/sql/relationtuples.go",
  "Limit(pagination.PerPage + 1)", "Limit(pagination.PerPage)"),
 ("token-from-dropped-row", "C07", "internal/persistence/sql/relationtuples.go",
  "\t\tres = res[:len(res)-1]\n\t\tnextPageToken = pagination.encodeNextPageToken(res[len(res)-1].ID)",
  "\t\tnextPageToken = pagination.encodeNextPageToken(res[len(res)-1].ID)\n\t\tres = res[:len(res)-1]"),
 ("delete-loses-nid", "C06", "internal/persistence/sql/relationtuples.go",
  'WHERE (%s) AND nid = ?", (&RelationTuple{}).TableName(), strings.Join(ors, " OR "))', 'WHERE (%s) AND (nid = ? OR 1=1)", (&RelationTuple{}).TableName(), strings.Join(ors, " OR "))'),
 ("traverser-inner-nid", "C06", "internal/persistence/sql/traverser.go",
  "WHERE nid = current.nid AND", "WHERE"),
 ("subject-id-isnull-dropped", "C04", "internal/persistence/sql/relationtuples.go",
  '\t\t\tWhere("subject_set_relation = ?", s.Relation).\n', ""),
 ("delete-before-insert", "C04", "internal/persistence/sql/relationtuples.go",
  "\t\tif err := p.WriteRelationTuples(ctx, ins...); err != nil {\n\t\t\treturn err\n\t\t}\n\t\treturn p.DeleteRelationTuples(ctx, del...)",
  "\t\tif err := p.DeleteRelationTuples(ctx, del...); err != nil {\n\t\t\treturn err\n\t\t}\n\t\treturn p.WriteRelationTuples(ctx, ins...)"),
 ("transact-no-transaction", "C05", "internal/relationtuple/transact_server.go",
  "\terr = h.d.Transactor().Transaction(ctx, func(ctx context.Context) error {\n\t\tits, err := h.d.Mapper().FromTuple(ctx, append(insertTuples, deleteTuples...)...)",
  "\terr = func(f func(ctx context.Context) error) error { return f(ctx) }(func(ctx context.Context) error {\n\t\tits, err := h.d.Mapper().FromTuple(ctx, append(insertTuples, deleteTuples...)...)"),
 ("insert-chunk-own-tx", "C05", "internal/persistence/sql/relationtuples.go",
  "chunkSizeInsertTuple        = 3000", "chunkSizeInsertTuple        = 2999"),
 ("read-path-uses-writing-mapper", "C17", "internal/expand/handler.go",
  "internal, err := h.d.ReadOnlyMapper().FromSubjectSet(r.Context(), subSet)", "internal, err := h.d.Mapper().FromSubjectSet(r.Context(), subSet)"),
 ("mapper-index-slip", "C16", "internal/relationtuple/uuid_mapping.go",
  "\t\t\t\tmt.Subject = &SubjectID{u[i*2]}", "\t\t\t\tmt.Subject = &SubjectID{u[i*2+1]}"),
 ("lookup-page-skips", "C16", "internal/persistence/sql/uuid_mapping.go",
  "for i := 0; i < len(idIdx); i += pageSize {", "for i := 0; i < len(idIdx); i += pageSize + 1 {"),
 ("swap-200-403", "C08", "internal/check/handler.go",
  "\tif allowed {\n\t\th.d.Writer().Write(w, r, &CheckPermissionResult{Allowed: allowed})\n\t\treturn\n\t}\n\n\th.d.Writer().WriteCode(w, r, http.StatusForbidden, &CheckPermissionResult{Allowed: allowed})\n}\n\nfunc (h *Handler) getCheck(",
  "\tif !allowed {\n\t\th.d.Writer().Write(w, r, &CheckPermissionResult{Allowed: allowed})\n\t\treturn\n\t}\n\n\th.d.Writer().WriteCode(w, r, http.StatusForbidden, &CheckPermissionResult{Allowed: allowed})\n}\n\nfunc (h *Handler) getCheck("),
 ("batch-results-reversed", "C08", "internal/check/handler.go",
  "\t\tresponses[i] = &CheckPermissionResultWithError{", "\t\tresponses[len(results)-1-i] = &CheckPermissionResultWithError{"),
 ("unknown-ns-allowed-post", "C08", "internal/check/handler.go",
  "\tt, err := h.d.ReadOnlyMapper().FromTuple(ctx, &tuple)\n\t// herodot.ErrNotFound occurs when the namespace is unknown\n\tif errors.Is(err, herodot.ErrNotFound) {\n\t\treturn false, nil",
  "\tt, err := h.d.ReadOnlyMapper().FromTuple(ctx, &tuple)\n\t// herodot.ErrNotFound occurs when the namespace is unknown\n\tif errors.Is(err, herodot.ErrNotFound) {\n\t\treturn true, nil"),
 ("expand-depth-plus-one", "C09", "internal/expand/engine.go",
  "if restDepth <= 1 {", "if restDepth <= 0 {"),
 ("expand-no-visited", "C09", "internal/expand/engine.go",
  "\tif wasAlreadyVisited {\n\t\treturn nil, nil\n\t}\n", "\t_ = wasAlreadyVisited\n"),
 ("expand-drops-second-page", "C09", "internal/expand/engine.go",
  "for ok := true; ok; ok = nextPage != \"\" {", "for ok := true; ok; ok = false {"),
 ("cut-last-colon", "C18", "ketoapi/enc_string.go",
  'if r.Namespace, objectAndRelationAndSubject, ok = strings.Cut(s, ":"); !ok {',
  'if i := strings.LastIndex(s, ":"); i >= 0 {\n\t\tr.Namespace, objectAndRelationAndSubject, ok = s[:i], s[i+1:], true\n\t}\n\tif !ok {'),
 ("opl-watcher-swallows-errors", "C19", "internal/driver/config/opl_config_namespace_watcher.go",
  "\tif len(errs) > 0 {\n\t\tfor _, err := range errs {", "\tif len(errs) > 1 {\n\t\tfor _, err := range errs {"),
 ("legacy-watcher-no-rollback", "C19", "internal/driver/config/namespace_watcher.go",
  "\t\tif existing, ok := nw.namespaces[e.Source()]; ok {\n\t\t\texisting.Contents = n.Contents\n\t\t} else {", "\t\tif _, ok := nw.namespaces[e.Source()]; ok && false {\n\t\t} else {"),
 ("lexer-unclosed-comment-ok", "C12", "internal/schema/lexer.go",
  '\t\tif r == eof {\n\t\t\treturn l.errorf("unclosed comment")\n\t\t}', '\t\tif r == eof {\n\t\t\tl.emit(itemComment)\n\t\t\treturn lexCode\n\t\t}'),
 ("typecheck-skips-includes", "C11", "internal/schema/parser.go",
  "\tp.addCheck(checkCurrentNamespaceHasRelation(&p.namespace, relation))\n\treturn &ast.ComputedSubjectSet{Relation: relation.Val}", "\treturn &ast.ComputedSubjectSet{Relation: relation.Val}"),
 ("not-binds-looser", "C10", "internal/schema/parser.go",
  "\t\tchild = p.parsePermissionExpression()\n\t}\n\tif child == nil {\n\t\treturn nil\n\t}\n\treturn &ast.InvertResult{Child: child}",
  "\t\tif rw := p.parsePermissionExpressions(itemOperatorComma, depth-1); rw != nil {\n\t\t\tchild = rw\n\t\t}\n\t}\n\tif child == nil {\n\t\treturn nil\n\t}\n\treturn &ast.InvertResult{Child: child}"),
 ("lazy-getter-unlocked", "C14", "internal/driver/registry_default.go",
  "func (r *RegistryDefault) ReadOnlyMapper() *relationtuple.Mapper {\n\tr.lazyMu.Lock()\n\tdefer r.lazyMu.Unlock()\n", "func (r *RegistryDefault) ReadOnlyMapper() *relationtuple.Mapper {\n"),
 ("grpc-expand-nil-subject", "C13", "internal/expand/handler.go",
  "switch sub := req.GetSubject().GetRef().(type) {", "switch sub := req.Subject.Ref.(type) {"),
 ("root-channel-unbuffered", "C15", "internal/check/engine.go",
  "resultCh := make(chan checkgroup.Result, 1)\n\tgo e.checkIsAllowed", "resultCh := make(chan checkgroup.Result)\n\tgo e.checkIsAllowed"),
 # handler-level: the request's cancellation no longer reaches the engine
 ("rest-check-detached-context", "C15", "internal/check/handler.go",
  "allowed, err := h.getCheck(r.Context(), r.URL.Query())\n\tif err != nil {\n\t\th.d.Writer().WriteError(w, r, err)\n\t\treturn\n\t}\n\n\tif allowed {",
  "allowed, err := h.getCheck(context.WithoutCancel(r.Context()), r.URL.Query())\n\tif err != nil {\n\t\th.d.Writer().WriteError(w, r, err)\n\t\treturn\n\t}\n\n\tif allowed {"),
 ("grpc-check-detached-context", "C15", "internal/check/handler.go",
  "allowed, err := h.d.PermissionEngine().CheckIsMember(ctx, internalTuple[0], int(req.MaxDepth))", "allowed, err := h.d.PermissionEngine().CheckIsMember(context.WithoutCancel(ctx), internalTuple[0], int(req.MaxDepth))"),
 ("batch-check-detached-context", "C15", "internal/check/engine.go",
  "results[i] = e.CheckRelationTuple(ctx, internalTuple[0], maxDepth)", "results[i] = e.CheckRelationTuple(context.WithoutCancel(ctx), internalTuple[0], maxDepth)"),
]


def sh(cmd, **kw):
    return subprocess.run(cmd, shell=True, capture_output=True, text=True, **kw)


def main():
    sel = sys.argv[1:]
    if sh("git -C %s status --porcelain" % REPO).stdout.strip():
        print("refusing: /repo working tree is not clean"); sys.exit(2)
    results = []
    for name, pid, f, old, new in M:
        if sel and not any(s in name or s == pid for s in sel):
            continue
        path = os.path.join(REPO, f)
        src = open(path).read()
        if src.count(old) != 1:
            print("%-34s %s  SKIP (pattern occurs %d times)" % (name, pid, src.count(old)), flush=True)
            results.append((name, pid, "skip"))
            continue
        try:
            open(path, "w").write(src.replace(old, new))
            b = sh("cd %s && go build ./... " % REPO)
            if b.returncode != 0:
                print("%-34s %s  SKIP (does not compile: %s)" % (name, pid, b.stderr.strip().splitlines()[-1][:120] if b.stderr.strip() else ""), flush=True)
                results.append((name, pid, "nocompile"))
                continue
            t = time.time()
            r = sh("cd %s && python3 run/check.py %s --tier quick" % (VERIF, pid))
            verdict = {0: "MISSED", 1: "caught", 2: "inconclusive"}.get(r.returncode, "rc=%d" % r.returncode)
            first = next((l for l in r.stdout.splitlines() if l.strip().startswith("violation:")), "").strip()[:150]
            print("%-34s %s  %-12s %4.0fs  %s" % (name, pid, verdict, time.time() - t, first), flush=True)
            results.append((name, pid, verdict))
        finally:
            sh("git -C %s checkout -- ." % REPO)
    caught = sum(1 for r in results if r[2] == "caught")
    ran = sum(1 for r in results if r[2] in ("caught", "MISSED", "inconclusive"))
    print("caught %d of %d" % (caught, ran))
    json.dump(results, open(os.path.join(VERIF, "seeded", "manual_mutants_last.json"), "w"), indent=1)


if __name__ == "__main__":
    os.makedirs(os.path.join(VERIF, "seeded"), exist_ok=True)
    main()
