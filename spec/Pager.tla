------------------------------- MODULE Pager -------------------------------
(***************************************************************************)
(* Keyset pagination as internal/persistence/sql/relationtuples.go does    *)
(* it: rows have a unique sortable id (shard_id, a random UUID, so a new   *)
(* row can land anywhere in the order); a page is                          *)
(*    SELECT .. WHERE match AND shard_id > last ORDER BY shard_id LIMIT n+1 *)
(* the extra row is dropped and the token is the id of the last returned   *)
(* row; the token is empty iff no extra row was seen.  Writers insert and  *)
(* delete rows between page fetches.                                       *)
(*                                                                         *)
(* Exhaustive mode checks the pagination guarantees over every table,      *)
(* page size and writer interleaving within the constants; generation mode *)
(* emits behaviours (fetch / insert at a position / delete) whose pages    *)
(* are compared one by one with the real persister.                        *)
(***************************************************************************)
EXTENDS Integers, Sequences, FiniteSets, TLC, Json

CONSTANTS Mode,       \* "small" | "gen" | "sizes"
          MaxSid,     \* ids are 1..MaxSid
          MaxWrites,  \* small: writer steps per iteration
          NRuns, NSteps
Sids == 1..MaxSid
\* a row is its id plus whether it matches the query being paged
VARIABLES table,      \* [Sids -> {"absent", "match", "other"}]
          size,       \* page size of this iteration (>= 1)
          token,      \* 0 = start, otherwise last returned id
          pages,      \* sequence of pages (each a sequence of ids) fetched so far
          finished,   \* the last fetch returned an empty token
          stable,     \* ids of matching rows present at the start and never deleted
          writes,     \* number of writer steps so far
          lastTok,    \* token returned by the most recent fetch (0 = empty)
          hist, steps, run
vars == <<table, size, token, pages, finished, stable, writes, lastTok, hist, steps, run>>

Present(tb) == {s \in Sids : tb[s] # "absent"}
Matching(tb) == {s \in Sids : tb[s] = "match"}

RECURSIVE SortedSeq(_)
SortedSeq(S) == IF S = {} THEN <<>> ELSE LET m == CHOOSE x \in S : \A y \in S : x <= y IN <<m>> \o SortedSeq(S \ {m})
\* the statement: matching rows with id > last, ascending, at most n+1 of them
\* (in mode "sizes" the matching rows are 1..N, so the sorted sequence is written down directly)
Select(tb, last, n) == LET all == IF Mode = "sizes"
                                  THEN LET top == Cardinality(Matching(tb)) IN [i \in 1..(IF top > last THEN top - last ELSE 0) |-> last + i]
                                  ELSE SortedSeq({s \in Matching(tb) : s > last})
                       IN IF Len(all) > n + 1 THEN SubSeq(all, 1, n + 1) ELSE all
\* GetRelationTuples: drop the extra row; the token is the last returned id iff there was an extra row
PageOf(tb, last, n) == LET res == Select(tb, last, n)
                       IN IF Len(res) > n THEN [rows |-> SubSeq(res, 1, n), tok |-> res[n]]
                          ELSE [rows |-> res, tok |-> 0]

Fetch ==
  /\ ~finished
  /\ LET p == PageOf(table, token, size) IN
       /\ pages' = Append(pages, p.rows)
       /\ token' = p.tok /\ lastTok' = p.tok
       /\ finished' = (p.tok = 0)
  /\ UNCHANGED <<table, size, stable, writes>>

Insert(s, kind) ==
  /\ table[s] = "absent"
  /\ table' = [table EXCEPT ![s] = kind]
  /\ writes' = writes + 1
  /\ UNCHANGED <<size, token, pages, finished, stable, lastTok>>
Delete(s) ==
  /\ table[s] # "absent"
  /\ table' = [table EXCEPT ![s] = "absent"]
  /\ stable' = stable \ {s}
  /\ writes' = writes + 1
  /\ UNCHANGED <<size, token, pages, finished, lastTok>>

\* Mode "sizes": tables of N matching rows for N around the page-size boundaries
SizesN == {0, 1, 2, 3, 6, 7, 8, 14, 99, 100, 101, 199, 200, 201, 1001, 1002, 1500, 2001}
SizesP == {1, 2, 3, 7, 100, 1000, 1001, 2000}
Init ==
  /\ table \in (CASE Mode = "small" -> [Sids -> {"absent", "match", "other"}]
                  [] Mode = "sizes" -> {[s \in Sids |-> IF s <= n THEN "match" ELSE "absent"] : n \in {x \in SizesN : x <= MaxSid}}
                  [] OTHER -> {[s \in Sids |-> "absent"]})
  /\ size \in (CASE Mode = "small" -> 1..3 [] Mode = "sizes" -> SizesP [] OTHER -> {1})
  \* large tables only with large pages (and the other way round), to keep the number of fetches small
  /\ (Mode = "sizes" => (Cardinality(Matching(table)) > 201 <=> size >= 1000))
  /\ token = 0 /\ pages = <<>> /\ finished = FALSE /\ writes = 0 /\ lastTok = 0
  /\ stable = Matching(table)
  /\ hist = <<>> /\ steps = 0
  /\ run \in (IF Mode = "gen" THEN 1..NRuns ELSE {0})

NextSmall ==
  /\ UNCHANGED <<hist, steps, run>>
  /\ \/ Fetch
     \/ /\ writes < MaxWrites /\ ~finished
        /\ \/ \E s \in Sids, k \in {"match", "other"} : Insert(s, k)
           \/ \E s \in Sids : Delete(s)

(***************************************************************************)
(* Generation: an iteration over a table built by the behaviour itself.    *)
(* Steps: "ins" (id, kind), "del" (id), "begin" (page size; starts a new   *)
(* iteration, which also fixes the stable set), "fetch".                   *)
(***************************************************************************)
Pick(S) == {RandomElement(S)}
NextGen ==
  /\ steps < NSteps /\ steps' = steps + 1 /\ run' = run
  /\ \E k \in Pick(1..10), s \in Pick(Sids), kk \in Pick(1..3), n \in Pick(1..3) :
       LET kind == IF kk = 3 THEN "other" ELSE "match"
           act == IF steps < 6 THEN "ins"                         \* build a table first
                  ELSE IF steps = 6 THEN "begin"
                  ELSE CASE k \in {1, 2, 3, 4, 5} -> "fetch" [] k \in {6, 7} -> "ins" [] k = 8 -> "del" [] OTHER -> "begin"
       IN
       CASE act = "ins" ->
              /\ IF table[s] = "absent"
                 THEN table' = [table EXCEPT ![s] = kind] ELSE table' = table
              /\ UNCHANGED <<size, token, pages, finished, stable, lastTok>> /\ writes' = writes + 1
              /\ hist' = Append(hist, [op |-> "ins", sid |-> s, kind |-> kind, did |-> table[s] = "absent"])
         [] act = "del" ->
              /\ table' = [table EXCEPT ![s] = "absent"] /\ stable' = stable \ {s}
              /\ UNCHANGED <<size, token, pages, finished, lastTok>> /\ writes' = writes + 1
              /\ hist' = Append(hist, [op |-> "del", sid |-> s, did |-> table[s] # "absent"])
         [] act = "begin" ->
              /\ size' = n /\ token' = 0 /\ pages' = <<>> /\ finished' = FALSE /\ stable' = Matching(table) /\ lastTok' = 0
              /\ UNCHANGED <<table, writes>>
              /\ hist' = Append(hist, [op |-> "begin", size |-> n])
         [] OTHER ->
              IF finished
              THEN /\ UNCHANGED <<table, size, token, pages, finished, stable, writes, lastTok>>
                   /\ hist' = Append(hist, [op |-> "noop"])
              ELSE /\ Fetch
                   /\ hist' = Append(hist, [op |-> "fetch", rows |-> pages'[Len(pages')], tok |-> lastTok',
                                            done |-> finished', stable |-> stable])
  /\ (steps' = NSteps => PrintT(ToJson([run |-> run, steps |-> hist'])))

NextSizes ==
  /\ UNCHANGED <<hist, steps, run>>
  /\ Fetch
  /\ (finished' => PrintT(ToJson([n |-> Cardinality(Matching(table)), size |-> size,
                                  lens |-> [i \in 1..Len(pages') |-> Len(pages'[i])],
                                  last |-> [i \in 1..Len(pages') |-> IF pages'[i] = <<>> THEN 0 ELSE pages'[i][Len(pages'[i])]]])))

Next == CASE Mode = "gen" -> NextGen [] Mode = "sizes" -> NextSizes [] OTHER -> NextSmall
Spec == Init /\ [][Next]_vars

(****************************** properties ******************************)
RECURSIVE Flatten(_)
Flatten(ps) == IF ps = <<>> THEN <<>> ELSE Head(ps) \o Flatten(Tail(ps))
Returned == Flatten(pages)
Count(seq, x) == Cardinality({i \in 1..Len(seq) : seq[i] = x})

\* each page holds at most page-size items
PageBound == \A i \in 1..Len(pages) : Len(pages[i]) <= size
\* nothing is ever returned twice, and only rows that matched when they were read
NoDuplicates == \A s \in Sids : Count(Returned, s) <= 1
\* ids come back in strictly increasing order across pages
Ascending == \A i \in 1..(Len(Returned) - 1) : Returned[i] < Returned[i + 1]
\* a relationship that exists unchanged for the whole iteration is returned exactly once
StableRowsOnce == finished => \A s \in stable : Count(Returned, s) = 1
\* without concurrent writes the concatenation is exactly the matching set
ExactWhenQuiet == (finished /\ writes = 0) => {Returned[i] : i \in 1..Len(Returned)} = Matching(table)
\* the token is empty iff the page is the last one: a non-empty token means more rows were present at fetch time
TokenMeansMore == [][(~finished /\ pages' # pages) =>
                       LET p == pages'[Len(pages')] IN
                         (lastTok' # 0) <=> (Cardinality({s \in Matching(table) : s > token}) > size)]_vars
\* a non-final page is full
NonFinalPagesFull == \A i \in 1..Len(pages) : (i < Len(pages) \/ ~finished) => Len(pages[i]) = size
=============================================================================
