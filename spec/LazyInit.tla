------------------------------ MODULE LazyInit ------------------------------
(***************************************************************************)
(* The lazily created singletons of the service registry                   *)
(* (internal/driver/registry_default.go: Mapper, ReadOnlyMapper,           *)
(* PermissionEngine, ExpandEngine, Writer, Tracer):                        *)
(*     if r.x == nil { r.x = new } ; return r.x                            *)
(* called by every request goroutine.  Each access to the field is an      *)
(* event; two events conflict if they touch the field from different       *)
(* goroutines and at least one writes.  Happens-before comes only from the *)
(* mutex (Synchronised = TRUE): an unlock happens before the next lock.    *)
(* RaceFree: every pair of conflicting events is ordered.                  *)
(* Singleton: every caller gets the same object.                           *)
(***************************************************************************)
EXTENDS Integers, Sequences, FiniteSets, TLC

CONSTANTS Procs, Synchronised

VARIABLES field,    \* 0 = nil, otherwise the id of the process that created the object
          pc,       \* per process: "start" | "locked" | "checked" | "write" | "unlock" | "done"
          sawNil,   \* what the process read
          got,      \* what the getter returned
          lock,     \* 0 = free, otherwise holder
          events,   \* sequence of [p, kind, epoch]
          epoch     \* number of unlocks so far: events inside different critical sections are ordered by it
vars == <<field, pc, sawNil, got, lock, events, epoch>>

Init == /\ field = 0 /\ pc = [p \in Procs |-> "start"] /\ sawNil = [p \in Procs |-> FALSE]
        /\ got = [p \in Procs |-> 0] /\ lock = 0 /\ events = <<>> /\ epoch = 0

Acquire(p) == /\ pc[p] = "start" /\ Synchronised /\ lock = 0
              /\ lock' = p /\ pc' = [pc EXCEPT ![p] = "locked"]
              /\ UNCHANGED <<field, sawNil, got, events, epoch>>
Read(p) == /\ pc[p] = (IF Synchronised THEN "locked" ELSE "start")
           /\ sawNil' = [sawNil EXCEPT ![p] = field = 0]
           /\ events' = Append(events, [p |-> p, kind |-> "read", epoch |-> epoch, locked |-> Synchronised])
           /\ pc' = [pc EXCEPT ![p] = "checked"]
           /\ UNCHANGED <<field, got, lock, epoch>>
Write(p) == /\ pc[p] = "checked" /\ sawNil[p]
            /\ field' = p
            /\ events' = Append(events, [p |-> p, kind |-> "write", epoch |-> epoch, locked |-> Synchronised])
            /\ pc' = [pc EXCEPT ![p] = "return"]
            /\ UNCHANGED <<sawNil, got, lock, epoch>>
Skip(p) == /\ pc[p] = "checked" /\ ~sawNil[p] /\ pc' = [pc EXCEPT ![p] = "return"]
           /\ UNCHANGED <<field, sawNil, got, lock, events, epoch>>
Return(p) == /\ pc[p] = "return"
             /\ got' = [got EXCEPT ![p] = field]
             /\ events' = Append(events, [p |-> p, kind |-> "read", epoch |-> epoch, locked |-> Synchronised])
             /\ IF Synchronised THEN lock' = 0 /\ epoch' = epoch + 1 ELSE UNCHANGED <<lock, epoch>>
             /\ pc' = [pc EXCEPT ![p] = "done"]
             /\ UNCHANGED <<field, sawNil>>
Next == \E p \in Procs : Acquire(p) \/ Read(p) \/ Write(p) \/ Skip(p) \/ Return(p)
Spec == Init /\ [][Next]_vars

Conflict(a, b) == a.p # b.p /\ (a.kind = "write" \/ b.kind = "write")
\* two events are ordered iff both were made under the lock (critical sections are totally ordered by the epoch)
Ordered(a, b) == a.locked /\ b.locked /\ a.epoch # b.epoch
RaceFree == \A i, j \in 1..Len(events) : (i < j /\ Conflict(events[i], events[j])) => Ordered(events[i], events[j])
Singleton == \A p, q \in Procs : (pc[p] = "done" /\ pc[q] = "done") => got[p] = got[q]
=============================================================================
