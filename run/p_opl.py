"""C12 (and later C10, C11): OPL lexer model, parser totality, grammar-directed programs"""
import json, random
import lib
from lib import *

TYPMAP = {"OperatorAnd": '"&&"', "OperatorOr": '"||"', "OperatorNot": '"!"', "OperatorAssign": '"="', "OperatorArrow": '"=>"',
          "OperatorDot": '"."', "OperatorColon": '":"', "OperatorComma": '","', "Semicolon": '";"', "TypeUnion": '"|"',
          "ParenLeft": '"("', "ParenRight": '")"', "BraceLeft": '"{"', "BraceRight": '"}"', "BracketLeft": '"["', "BracketRight": '"]"',
          "AngledLeft": '"<"', "AngledRight": '">"'}

GOOD = '''import { Namespace, SubjectSet, Context } from "@ory/keto-namespace-types"
class User implements Namespace {}
class Group implements Namespace {
  related: { members: (User | SubjectSet<Group, "members">)[] }
}
class Doc implements Namespace {
  related: {
    parents: Doc[]
    viewers: (User | SubjectSet<Group, "members">)[]
    "owners": Array<User>
  }
  permits = {
    view: (ctx: Context): boolean => this.related.viewers.includes(ctx.subject) || this.related.parents.traverse((p) => p.permits.view(ctx)),
    edit: (ctx) => this.related["owners"].includes(ctx.subject) && !this.permits.view(ctx), // comment
  }
}
'''


def tokens_of(src):
    import re
    return re.findall(r'"[^"]*"|\'[^\']*\'|=>|\|\||&&|[A-Za-z_][A-Za-z_0-9]*|\s+|//[^\n]*|/\*.*?\*/|.', src, re.S)


def near_misses(rnd, n):
    toks = tokens_of(GOOD)
    idx = [i for i, t in enumerate(toks) if not t.isspace()]
    out = []
    for i in idx:
        out.append("".join(toks[:i] + toks[i + 1:]))              # token deleted
        out.append("".join(toks[:i] + [toks[i], " ", toks[i]] + toks[i + 1:]))   # token duplicated
    for _ in range(n):
        a, b = rnd.sample(idx, 2)
        t = list(toks); t[a], t[b] = t[b], t[a]
        out.append("".join(t))                                          # tokens swapped
    for i in range(0, len(GOOD), 7):
        out.append(GOOD[:i] + "/* never closed")                        # unterminated comment at every position
        out.append(GOOD[:i] + "\"never closed")                         # unterminated string
        out.append(GOOD[:i])                                            # truncated input
    for depth in (1, 9, 10, 11, 12, 500, 10000):
        out.append("class A implements Namespace { related: { a: A[] } permits = { p: (ctx) => " + "(" * depth +
                   "this.related.a.includes(ctx.subject)" + ")" * depth + " } }")
        out.append("class A implements Namespace { related: { a: A[] } permits = { p: (ctx) => " + "!" * depth +
                   "this.related.a.includes(ctx.subject) } }")
    out.append(GOOD)
    out.append("")
    out.append("class " * 5000)
    out.append(GOOD * 400)   # about half a megabyte
    # documents larger than a megabyte: an error behind the first MiB, and a valid document with a very long comment
    filler = "// " + "x" * 60 + "\n"
    out.append(filler * 18000 + "class A implements Namespace { related: { a: Missing[] } }\n")
    out.append("class A implements Namespace {} /* " + "y" * 1200000 + " */ class B implements Namespace {}\n")
    out.append(GOOD + filler * 40000 + "class Z implements Namespace { permits = { p: (ctx) => this.related.nothing.includes(ctx.subject) } }\n")
    return out


def c12(tier):
    ck = Check("C12", tier)
    binary = build_harness()
    rnd = random.Random(seed())
    maxlen, nsample, longlen = (3, 3000, 9) if tier == "quick" else (4, 60000, 14)
    lex = []
    for alpha, ml, ns_, ll in (("full", maxlen, nsample, longlen), ("comment", 7 if tier == "quick" else 8, 500, 14), ("string", 5 if tier == "quick" else 6, 500, 12)):
        cfg = write_cfg(['Alpha = "%s"' % alpha, "MaxLen = %d" % ml, "NSample = %d" % ns_, "LongLen = %d" % ll], invariants=["LexerTotal"])
        r = tlc("OplLex", "l.cfg", files={"l.cfg": cfg}, extra=["-seed", str(seed())])
        ck.add_tlc(r)
        if r.violation:
            ck.violation("OplLex.tla (%s alphabet): %s" % (alpha, r.violation), {"tlc": r.raw_tail[-3000:]})
        lex += r.lines
    texts = near_misses(rnd, 200 if tier == "quick" else 3000)
    # whole typed documents (OplTypes.tla): the deferred type checks are part of Parse - every type of the traversed relation, subject-set
    # type cycles inside one namespace and across namespaces, every mutation; one document per class (thorough: 2000 more)
    cfg = write_cfg(["AsIsThroughSubjectSet = TRUE"])
    tp = tlc("OplTypes", "t1.cfg", files={"t1.cfg": cfg})
    ck.add_tlc(tp)
    bykey = {}
    for l in tp.lines:
        bykey.setdefault((l["prog"]["pt"], l["prog"]["gm"], l["prog"]["body"], l["prog"]["mut"]), []).append(l["src"])
    typed = [rnd.choice(sorted(set(v))) for k, v in sorted(bykey.items())]
    if tier != "quick":
        typed += rnd.sample(sorted({l["src"] for l in tp.lines}), 2000)
    texts += typed
    ck.extra["typed_documents"] = len(typed)
    raws = []
    for _ in range(300 if tier == "quick" else 5000):
        n = rnd.choice([1, 2, 3, 5, 8, 20, 60, 200])
        base = GOOD.encode()
        s = bytearray(base[rnd.randrange(len(base)):][:n].ljust(n, b" "))
        for _ in range(rnd.randrange(1, 4)):
            s[rnd.randrange(len(s))] = rnd.choice([0x80, 0xff, 0xc3, 0xe2, 0x00, 0xf0, 0xbf, 0x22, 0x27, 0x2f, 0x2a])
        raws.append(list(s))
    # a string literal with invalid UTF-8 in the place of every token of a valid document, one at a time
    toks = tokens_of(GOOD)
    for i, tk in enumerate(toks):
        if tk.isspace():
            continue
        doc = "".join(toks[:i]).encode() + b"'\xff\xfe'" + "".join(toks[i + 1:]).encode()
        raws.append(list(doc))
    inp = {"lex": [l["in"] for l in lex], "texts": texts, "raw": raws}
    recs, crashers = run_surviving(binary, "opl", inp, timeout=1800)
    for c in crashers:
        what = {"lex": lambda i: {"input_chars": lex[i]["in"]}, "text": lambda i: {"text": texts[i][:600], "length": len(texts[i])},
                "raw": lambda i: {"bytes": raws[i][:200]}}[c["kind"]](c["i"])
        ck.violation("the process died while lexing / parsing an input (no diagnosis was returned)", dict(what, crash=c["log"]))
    dead = {(c["kind"], c["i"]) for c in crashers}
    bylex = {x["lex"]: x for x in recs if "lex" in x}
    slow = 0

    def parse_checks(po, what, cid):
        nonlocal slow
        ck.evaluations += 1
        if po.get("panic"):
            ck.violation("the parser panicked on %s: %s" % (what, po["panic"][:200]), cid)
            return
        if po.get("hang"):
            ck.violation("the parser had not returned after 30 s on %s" % what, cid)
            return
        if po.get("skipped"):
            return      # not waited for: four parses of this process had not returned before
        for b in po.get("bad") or []:
            ck.violation("parse error position/rendering: " + b, cid)
        if "rest_status" in po and po["rest_status"]:
            if not po["rest_same"] or not po["grpc_same"]:
                ck.violation("the syntax-check endpoints do not report the parser's errors (REST %s same=%s, gRPC %s same=%s)" % (
                    po["rest_status"], po["rest_same"], po["grpc_code"], po["grpc_same"]), cid)
        if po["ms"] > 15000:
            slow += 1

    for i, l in enumerate(lex):
        ob = bylex.get(i)
        if ob is None and (("lex", i) in dead or lib.INCOMPLETE):
            continue
        if ob is None:
            raise Inconclusive("lexer input %d not replayed" % i)
        ck.evaluations += 1
        cid = {"input_chars": l["in"], "model_items": l["items"], "real_items": ob.get("items")}
        if ob.get("panic"):
            ck.violation("the lexer panicked: " + ob["panic"][:200], cid)
            continue
        if not ob["terminated"]:
            ck.violation("the lexer did not finish within |input|+5 items", cid)
            continue
        want = [(TYPMAP.get(x["typ"], x["typ"]), x["s"], x["e"]) for x in l["items"]]
        got = [(x["Typ"], x["Start"], x["End"]) for x in ob["items"]]
        if want != got:
            ck.violation("the lexer's items differ from the lexer model", dict(cid, expected=want, observed=got))
        if len(l["in"]) >= 2:
            ck.nontrivial.add(i)
        parse_checks(ob["parse"], "a lexer-model input", {"input_chars": l["in"]})
    for x in recs:
        if "text" in x:
            parse_checks(x["parse"], "a grammar-directed near miss", {"text": texts[x["text"]][:400], "length": len(texts[x["text"]])})
            ck.nontrivial.add(("t", x["text"]))
        elif "raw" in x:
            parse_checks(x["parse"], "a byte string", {"bytes": raws[x["raw"]][:200]})
            ck.nontrivial.add(("r", x["raw"]))
    if slow:
        raise Inconclusive("%d inputs took more than 15 s to parse (performance is not decided here)" % slow)
    ck.sample({"input_chars": lex[len(lex) // 2]["in"], "model_items": lex[len(lex) // 2]["items"]})
    ck.sample({"near_miss": texts[5][:300]})
    ck.extra["lexer_inputs"] = len(lex)
    ck.extra["programs"] = len(texts)
    ck.extra["byte_strings"] = len(raws)
    ck.rule = ("every character-class string up to length %d plus %d random ones of length %d through the real lexer (items and byte offsets must equal OplLex.tla) and parser; "
               "token deletions/duplications/swaps of a valid program, unterminated comments and strings at every position, truncations, nesting 1..10^4, 0.5 MB input, "
               "random byte strings with invalid UTF-8; non-trivial: inputs of at least two characters" % (maxlen, nsample, longlen))
    ck.assumptions = ["'time linear in the input' is not decided (only a 10 s per-input sanity bound, reported as inconclusive)",
                      "the keyword set of the lexer model is {ctx}; the other keywords are exercised by whole programs"]
    ck.finish()


def c10(tier):
    ck = Check("C10", tier)
    binary = build_harness()
    depth, nsample, nvar = (2, 700, 2) if tier == "quick" else (2, 0, 16)
    cfg = write_cfg(["Depth = %d" % depth, "NSample = %d" % nsample, "NVariants = %d" % nvar])
    r = tlc("OplGrammar", "g.cfg", files={"g.cfg": cfg}, extra=["-seed", str(seed())])
    ck.add_tlc(r)
    progs = r.lines
    # flat operator chains of four and five operands in every &&/|| pattern (what precedence and associativity are about)
    cfg = write_cfg(["Depth = 0", "NSample = 0", "NVariants = %d" % (2 if tier == "quick" else 6)])
    rc = tlc("OplGrammar", "gc.cfg", files={"gc.cfg": cfg}, extra=["-seed", str(seed() + 2)])
    ck.add_tlc(rc)
    progs = progs + rc.lines
    ck.extra["operator_chain_programs"] = len(rc.lines)
    if tier == "thorough":
        # deeper nesting around the documented limit (10): chains of ! and of parentheses are printed by the same module at depth 3 in a sample
        cfg = write_cfg(["Depth = 3", "NSample = 50000", "NVariants = 1"])
        r3 = tlc("OplGrammar", "g3.cfg", files={"g3.cfg": cfg}, extra=["-seed", str(seed() + 1)], heap="8g")
        ck.add_tlc(r3)
        progs = progs + r3.lines
    if not progs:
        raise Inconclusive("OplGrammar.tla generated nothing")
    eng_every = 40 if tier == "quick" else 25
    inp = {"progs": [{"src": p["src"], "engine": i % eng_every == 0, "leafc": p["leafc"], "kw": p["kw"]} for i, p in enumerate(progs)], "lex": [], "texts": [], "raw": []}
    allrecs, crashers = run_surviving(binary, "opl", inp, timeout=2400)
    recs = {x["prog"]: x for x in allrecs if "prog" in x}
    for c in crashers:
        ck.violation("the process died while parsing / evaluating a program of the documented grammar",
                     {"source": progs[c["i"]]["src"], "body": progs[c["i"]]["body"], "crash": c["log"]})
    dead = {c["i"] for c in crashers}
    known = {f["id"]: f for f in known_findings("C10")}
    for i, p in enumerate(progs):
        ob = recs.get(i)
        if ob is None and (i in dead or lib.INCOMPLETE):
            continue
        if ob is None:
            raise Inconclusive("program %d not replayed" % i)
        ck.evaluations += 1
        cid = {"body": p["body"], "source": p["src"], "class_order": p["order"], "leaf_c_spelled_as": p["leafc"]}
        if ob.get("panic"):
            ck.violation("parser or evaluation panicked: " + ob["panic"][:200], cid)
            continue
        want = sorted(map(tuple, p["tt"]))
        if ob.get("errors"):
            ck.violation("a program of the documented grammar is rejected: %s" % ob["errors"][:2], dict(cid, errors=ob["errors"][:3]))
            continue
        got = sorted(map(tuple, ob["tt"]))
        if got != want:
            ck.violation("the parsed permission does not mean what the TypeScript expression means", dict(cid, typescript_true_for=want, keto_true_for=got))
        if sorted(ob.get("relations") or []) != sorted(p["rels"]):
            ck.violation("the parsed namespace does not have the declared relations", dict(cid, relations=ob.get("relations")))
        if "engine_tt" in ob or "engine_err" in ob:
            if ob.get("engine_err"):
                ck.violation("a server configured with the program fails the check: " + ob["engine_err"][:200], cid)
            elif sorted(map(tuple, ob["engine_tt"])) != want:
                ck.violation("a server configured with the program decides differently from TypeScript", dict(cid, typescript_true_for=want, keto_true_for=ob["engine_tt"]))
        if "&&" in p["body"] or "||" in p["body"]:
            ck.nontrivial.add(p["body"])
    ck.sample({"body": progs[0]["body"], "truth_table": progs[0]["tt"]})
    ck.sample({"source": progs[len(progs) // 2]["src"]})
    ck.extra["programs"] = len(progs)
    ck.exhaustive = nsample == 0
    ck.rule = ("expressions of nesting depth %d over three leaves with !, &&, || (all %s) printed with TypeScript's minimal parentheses in random spelling variants "
               "(property access, array type, annotations, separators, quoting, comments, redundant parentheses, trailing commas, !!, the leaf c spelled directly / as a traversal onto a relation / "
               "as a traversal onto a permission / as a permission call, four orders of the three classes, relation names that begin with the letters of a keyword); parsed by the real parser; "
               "truth tables compared; every %dth program also through a real server; non-trivial: at least one binary operator" % (depth, "of them" if nsample == 0 else "a seeded sample", eng_every))
    ck.assumptions = ["the spellings `related:` and `traverse` of the examples and snapshots are used where the EBNF text says `related =` and `transitive`"]
    ck.finish()


def c11(tier):
    ck = Check("C11", tier)
    binary = build_harness()
    # the repaired design (computed relation looked up where the engine evaluates it) satisfies the property on the model
    cfg = write_cfg(["AsIsThroughSubjectSet = FALSE"], invariants=["Sound"])
    r0 = tlc("OplTypes", "t0.cfg", files={"t0.cfg": cfg}, want_lines=False)
    ck.add_tlc(r0)
    if r0.violation:
        ck.violation("OplTypes.tla: the type rules that follow the engine's lookups are not sound: " + r0.violation, {"tlc": r0.raw_tail[-2000:]})
    # the type checker as written: oracle lines for the replay
    cfg = write_cfg(["AsIsThroughSubjectSet = TRUE"])
    r = tlc("OplTypes", "t1.cfg", files={"t1.cfg": cfg})
    ck.add_tlc(r)
    progs = r.lines
    if tier == "quick":
        import random
        rnd = random.Random(seed())
        must = [p for p in progs if p["accepted"] and not p["runtime_ok"]]     # the recorded finding's programs are always replayed
        # every (mutation, class order) and every (body, class order) of the unmutated programs is represented
        strata = {}
        for p in progs:
            if p in must:
                continue
            pr = p["prog"]
            strata.setdefault((pr["mut"], pr["order"], pr["body"] if pr["mut"] == "none" else ""), []).append(p)
        progs = list(must)
        for k in sorted(strata):
            progs += rnd.sample(strata[k], min(len(strata[k]), 8))
    # the converse is stated for P' obtained from an ACCEPTED P: the unmutated program of every mutant is replayed too
    def base_key(pr):
        return json.dumps(dict(pr, mut="none"), sort_keys=True)
    bases = {base_key(p["prog"]): p for p in r.lines if p["prog"]["mut"] == "none"}
    have = {json.dumps(p["prog"], sort_keys=True) for p in progs}
    for p in list(progs):
        if p["prog"]["mut"] != "none":
            b = bases.get(base_key(p["prog"]))
            if b is None:
                raise Inconclusive("OplTypes.tla printed a mutant without its unmutated program")
            k = json.dumps(b["prog"], sort_keys=True)
            if k not in have:
                have.add(k)
                progs.append(b)
    index_of = {json.dumps(p["prog"], sort_keys=True): i for i, p in enumerate(progs)}
    inp = {"typeprogs": [{"src": p["src"], "tuples": p["tuples"]} for p in progs], "progs": [], "lex": [], "texts": [], "raw": []}
    allrecs, crashers = run_surviving(binary, "opl", inp, timeout=2400)
    recs = {x["typeprog"]: x for x in allrecs if "typeprog" in x}
    for c in crashers:
        # neither accepted nor rejected: the type checker (or a check on the loaded configuration) took the process down
        ck.violation("the process died while type-checking a document or checking on the loaded configuration",
                     {"program": progs[c["i"]]["prog"], "source": progs[c["i"]]["src"], "crash": c["log"]})
    dead = {c["i"] for c in crashers}
    known = {f["id"]: f for f in known_findings("C11")}
    drift = 0
    outside = 0
    for i, p in enumerate(progs):
        ob = recs.get(i)
        if ob is None and (i in dead or lib.INCOMPLETE):
            continue
        if ob is None:
            raise Inconclusive("program %d not replayed" % i)
        ck.evaluations += 1
        cid = {"program": p["prog"], "source": p["src"]}
        if ob.get("panic"):
            ck.violation("panic: " + ob["panic"][:200], cid)
            continue
        errs = ob.get("errors") or []
        if p["prog"]["mut"] != "none":
            bob = recs.get(index_of[base_key(p["prog"])])
            if bob is None or bob.get("panic") or bob.get("errors"):
                # the parser does not accept the unmutated program (e.g. a traverse() over a type that never reaches a plain
                # namespace is refused whatever it names): the mutant is outside the property's quantifier
                outside += 1
                continue
            ck.nontrivial.add(i)
            if not errs:
                ck.violation("a document with an undeclared reference (%s) is accepted" % p["prog"]["mut"], cid)
            elif not any(e["at"].strip('"\'') == p["offending"] for e in errs):
                ck.violation("the error for the undeclared reference does not point at the offending token '%s'" % p["offending"],
                             dict(cid, errors=errs[:3]))
            continue
        if bool(errs) == p["accepted"]:
            drift += 1      # the as-is type-rule model and the parser disagree on acceptance (not a verdict of this property)
        if errs:
            continue
        ck.nontrivial.add(i)
        schema_errs = [e for e in (ob.get("check_errors") or []) if "does not exist" in e or "not implemented" in e or "malformed" in e.lower()]
        other = [e for e in (ob.get("check_errors") or []) if e not in schema_errs]
        if other:
            ck.violation("a check on conforming relationships failed: " + other[0][:200], dict(cid, errors=other[:3]))
        if schema_errs:
            if "C11-traverse-through-subjectset" in known and not p["runtime_ok"]:
                ck.known("C11-traverse-through-subjectset", "an accepted document fails at check time with 'relation does not exist' (traverse over a SubjectSet<T,R> type)")
            else:
                ck.violation("an accepted document fails at check time with a schema error", dict(cid, errors=schema_errs[:3]))
        elif len(ck.samples) < 3:
            ck.sample({"program": p["prog"], "checks_run": ob.get("checks")})
    for f in known.values():
        if f["id"] not in ck.known_hits and not ck.violations:
            raise Inconclusive("known finding %s did not reproduce: remove it from known_findings.json" % f["id"])
    # the document in force changes while the server runs (Config.Set, configuration file, watched OPL file): a check must use
    # the relations of the document now in force, as a server started with it does
    import p_reconf
    p_reconf.reconf(ck, binary, tier, "C11")
    ck.extra["programs"] = len(progs)
    ck.extra["acceptance_model_drift"] = drift
    ck.extra["mutants_of_programs_the_parser_does_not_accept"] = outside
    ck.rule = ("programs over three namespaces enumerated by OplTypes.tla (type of the traversed relation, type of the group relation, which namespaces declare 'view', "
               "five permission bodies, seven single-reference mutations); mutants must be rejected at the offending token; accepted programs are loaded into a real server, "
               "relationships conforming to the declared types are written and every declared relation is checked on five objects for two subjects; non-trivial: mutants and accepted programs")
    ck.assumptions = ["attribution of the recorded finding uses the spec's RuntimeOK predicate for the program"]
    ck.finish()
