------------------------------- MODULE Codec -------------------------------
(***************************************************************************)
(* The encodings of a relationship (package ketoapi).                      *)
(*                                                                         *)
(* Mode "strings": the human readable form namespace:object#relation@subj  *)
(* as an automaton over sequences of characters from {a, b, :, #, @, (, )} *)
(* - FromStr cuts on the first ':', the first '#', the first '@', trims    *)
(* parentheses from both ends of the subject, and reads the subject as a   *)
(* subject set iff it contains ':'.  Checked on every string up to MaxLen: *)
(* parsing fails or the printed form of the result re-parses to the same   *)
(* value (no silent mis-parse); and on every structured value of           *)
(* Dom_string the round trip is the identity.                              *)
(*                                                                         *)
(* Mode "values": the structured value space for the JSON, URL-query and   *)
(* protobuf codecs, whose specification is the identity law.               *)
(***************************************************************************)
EXTENDS Integers, Sequences, FiniteSets, TLC, Json

CONSTANTS Mode, MaxLen,
          TrimMode,  \* "all": strings.Trim(subject, "()") as the code did; "pair": one matching pair of parentheses
          Wrap       \* the printer re-adds a pair of brackets around a bracketed subject (see ToStr)

\* two characters without meaning in the string form (a letter and a line break) and the five that have one
Chars == {"a", "\n", ":", "#", "@", "(", ")"}
Str(n) == UNION {[1..k -> Chars] : k \in 0..n}

\* strings.Cut(s, c): <<before, after, found>>
RECURSIVE IndexOf(_, _, _)
IndexOf(s, c, i) == IF i > Len(s) THEN 0 ELSE IF s[i] = c THEN i ELSE IndexOf(s, c, i + 1)
Cut(s, c) == LET i == IndexOf(s, c, 1)
             IN IF i = 0 THEN <<s, <<>>, FALSE>> ELSE <<SubSeq(s, 1, i - 1), SubSeq(s, i + 1, Len(s)), TRUE>>
Contains(s, c) == IndexOf(s, c, 1) # 0
\* strings.Trim(s, "()")
RECURSIVE TrimL(_), TrimR(_)
TrimL(s) == IF s # <<>> /\ Head(s) \in {"(", ")"} THEN TrimL(Tail(s)) ELSE s
TrimR(s) == IF s # <<>> /\ s[Len(s)] \in {"(", ")"} THEN TrimR(SubSeq(s, 1, Len(s) - 1)) ELSE s
Trim(s) == IF TrimMode = "all" THEN TrimR(TrimL(s))
           ELSE IF Len(s) >= 2 /\ Head(s) = "(" /\ s[Len(s)] = ")" THEN SubSeq(s, 2, Len(s) - 1) ELSE s

Err == [err |-> TRUE]
IdSub(s) == [kind |-> "id", id |-> s]
SetSub(n, o, r) == [kind |-> "set", ns |-> n, obj |-> o, rel |-> r]
T(n, o, r, sub) == [err |-> FALSE, ns |-> n, obj |-> o, rel |-> r, sub |-> sub]

SetFromStr(s) == LET c1 == Cut(s, "#")          \* namespace:object , relation
                     c2 == Cut(c1[1], ":")
                 IN IF ~c2[3] THEN Err ELSE [err |-> FALSE, sub |-> SetSub(c2[1], c2[2], c1[2])]
FromStr(s) ==
  LET c1 == Cut(s, ":") IN
  IF ~c1[3] THEN Err ELSE
  LET c2 == Cut(c1[2], "#") IN
  IF ~c2[3] THEN Err ELSE
  LET c3 == Cut(c2[2], "@") IN
  IF ~c3[3] THEN Err ELSE
  LET subj == Trim(c3[2]) IN
  IF Contains(subj, ":")
  THEN LET ss == SetFromStr(subj) IN IF ss.err THEN Err ELSE T(c1[1], c2[1], c3[1], ss.sub)
  ELSE T(c1[1], c2[1], c3[1], IdSub(subj))

SetToStr(ss) == IF ss.rel = <<>> THEN ss.ns \o <<":">> \o ss.obj ELSE ss.ns \o <<":">> \o ss.obj \o <<"#">> \o ss.rel
\* Wrap = TRUE (the code since the repair recorded as C18-print-bracketed-subject): a subject whose text starts with "(" and ends
\* with ")" is printed inside one more pair of brackets, because FromStr removes one pair.  Wrap = FALSE is the printer as it was:
\* ":#@(:)#" parsed to the subject set ("(", ")", ""), was printed ":#@(:)" and re-parsed to another relationship.
SubToStr(t) == LET s == IF t.sub.kind = "id" THEN t.sub.id ELSE SetToStr(t.sub)
               IN IF Wrap /\ Len(s) >= 2 /\ Head(s) = "(" /\ s[Len(s)] = ")" THEN <<"(">> \o s \o <<")">> ELSE s
ToStr(t) == t.ns \o <<":">> \o t.obj \o <<"#">> \o t.rel \o <<"@">> \o SubToStr(t)

\* the documented domain: fields avoid the separators where they are significant
InDom(t) ==
  /\ ~Contains(t.ns, ":") /\ ~Contains(t.obj, "#") /\ ~Contains(t.rel, "@")
  /\ IF t.sub.kind = "id"
     THEN ~Contains(t.sub.id, ":") /\ Trim(t.sub.id) = t.sub.id
     ELSE /\ ~Contains(t.sub.ns, ":") /\ ~Contains(t.sub.ns, "#") /\ ~Contains(t.sub.obj, "#")
          /\ Trim(SetToStr(t.sub)) = SetToStr(t.sub)

\* no silent mis-parse: the printed form of whatever was parsed parses to the same value
Canonical(s) == LET t == FromStr(s) IN t.err \/ FromStr(ToStr(t)) = t
RoundTrip(t) == InDom(t) => FromStr(ToStr(t)) = t

\* field contents with separators in every position; values are enumerated by index tuples
FieldSeq == << <<>>, <<"a">>, <<"a", "b">>, <<":">>, <<"a", ":">>, <<"#", "a">>, <<"(", "a">>, <<"a", ")">>, <<"@">>, <<"a", "#", "b">>,
              <<"a", ":", "/", "/", "b">>, <<"/", "a", ".", "b", "?", "c", "=", "d">>,   \* URL-like contents
              <<".", ".", ".">>,
              <<"a", "\n">>, <<"\n">>,
              \* contents that look like URL escapes: "%61" is what "a" looks like escaped, "%2541" unescapes to "%41" and then to "A"
              <<"%", "6", "1">>, <<"%", "2", "5", "4", "1">> >>     \* a field that ends in a line break, a field that is one     \* the spelling other Zanzibar implementations give the "any relation" wildcard: an ordinary string here
NF == Len(FieldSeq)
NsSeq == << <<"a">>, <<":">> >>
ObjSeq == << <<"a">>, <<"#", "a">> >>
RelSeq == << <<>>, <<"a">>, <<"@">> >>
\* (no set of all value indices is ever built: TLC evaluates constant definitions eagerly and slowly)
IdIdx(a) == {[kind |-> "id", a |-> a, b |-> b, c |-> c, d |-> d, e |-> 1, f |-> 1] : b \in 1..NF, c \in 1..NF, d \in 1..NF}
SetIdx(d) == {[kind |-> "set", a |-> a, b |-> b, c |-> c, d |-> d, e |-> e, f |-> f] : a \in 1..2, b \in 1..2, c \in 1..3, e \in 1..NF, f \in 1..NF}
ValueOf(v) == IF v.kind = "id" THEN T(FieldSeq[v.a], FieldSeq[v.b], FieldSeq[v.c], IdSub(FieldSeq[v.d]))
              ELSE T(NsSeq[v.a], ObjSeq[v.b], RelSeq[v.c], SetSub(FieldSeq[v.d], FieldSeq[v.e], FieldSeq[v.f]))

\* strings are enumerated by (length, index) and decoded digit by digit, so that
\* TLC does not have to build the set of all sequences first
CharSeq == <<"a", "\n", ":", "#", "@", "(", ")">>
RECURSIVE Pow7(_)
Pow7(k) == IF k = 0 THEN 1 ELSE 7 * Pow7(k - 1)
Decode(len, idx) == [i \in 1..len |-> CharSeq[((idx \div Pow7(i - 1)) % 7) + 1]]

\* The case space is reached in two branching steps (a partition key first, the rest
\* second) so that TLC's workers generate the cases in parallel instead of one
\* thread enumerating them as initial states.
VARIABLES x, stage
vars == <<x, stage>>
Parts == 0..(IF Mode = "strings" THEN 15 ELSE 2 * NF - 1)
StringCases(p) == {[len |-> l, idx |-> i] : l \in 0..MaxLen, i \in {j \in 0..(Pow7(MaxLen) - 1) : j % 16 = p}}
Init == x = [part |-> -1] /\ stage = 0
Next == \/ /\ stage = 0 /\ \E p \in Parts : x' = [part |-> p] /\ stage' = 1
        \/ /\ stage = 1 /\ stage' = 2
           /\ IF Mode = "strings"
              THEN \E c \in StringCases(x.part) : c.idx < Pow7(c.len) /\ x' = c
              ELSE \E c \in (IF x.part < NF THEN IdIdx(x.part + 1) ELSE SetIdx(x.part - NF + 1)) : x' = c
        \/ /\ stage = 2 /\ stage' = 3 /\ x' = x
           /\ IF Mode = "strings"
              THEN PrintT(ToJson([s |-> Decode(x.len, x.idx), r |-> FromStr(Decode(x.len, x.idx))]))
              ELSE PrintT(ToJson([t |-> ValueOf(x), indom |-> InDom(ValueOf(x)), str |-> ToStr(ValueOf(x))]))
Spec == Init /\ [][Next]_vars
Faithful == stage >= 2 => (IF Mode = "strings" THEN Canonical(Decode(x.len, x.idx)) ELSE RoundTrip(ValueOf(x)))
=============================================================================
