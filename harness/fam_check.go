package zzverif

import (
	"bytes"
	"context"
	"google.golang.org/grpc/status"
	"net/http/httptest"
	"sync"

	"github.com/julienschmidt/httprouter"

	"github.com/ory/keto/internal/x"
	rts "github.com/ory/keto/proto/ory/keto/relation_tuples/v1alpha2"

	"encoding/json"
	"errors"
	"fmt"
	"testing"
	"time"

	"github.com/ory/keto/internal/check"
	"github.com/ory/keto/internal/check/checkgroup"
	"github.com/ory/keto/internal/driver"
	"github.com/ory/keto/internal/namespace"
	"github.com/ory/keto/internal/schema"
	"github.com/ory/keto/ketoapi"
)

// Replay of CheckCases.tla groups against the real check engine.

type famDef struct {
	Cfg    jcfg     `json:"cfg"`
	U      []jtuple `json:"U"`
	Q      []jtuple `json:"Q"`
	Ords   [][]int  `json:"ords"`
	Widths []int    `json:"widths"`
	Dmax   int      `json:"dmax"`
	Legacy bool     `json:"legacy"`
}

type checkGroupIn struct {
	F  string `json:"f"`
	St bool   `json:"st"`
	S  []int  `json:"s"`
	O  int    `json:"o"`
}

type checkIn struct {
	Defs    map[string]*famDef `json:"defs"`
	Groups  []checkGroupIn     `json:"groups"`
	GDepth  int                `json:"gdepth"`
	RDepths []int              `json:"rdepths"`
	Scheds  int                `json:"scheds"`  // extra runs under seeded delay schedules
	Mode    string             `json:"mode"`    // plain | fault | cancel
	Widths  []int              `json:"widths"`  // indices (0-based) into def.Widths to run; empty = all
	QSel    []int              `json:"qsel"`    // query indices to run; empty = all
	BDepths []int              `json:"bdepths"` // plain mode: request depths at which all queries are also sent as one batch
}

type checkOut struct {
	G     int      `json:"g"`
	W     int      `json:"w"`
	Run   int      `json:"run"`
	Res   []string `json:"res,omitempty"`   // per query: codes over rdepths
	Calls [][]int  `json:"calls,omitempty"` // per query: storage calls over rdepths
	Leak  int      `json:"leak"`            // keto goroutines still alive after the group
	LeakS string   `json:"leaks,omitempty"`
	// fault / cancel modes: one record per (query, depth)
	Q    int    `json:"q"`
	D    int    `json:"d,omitempty"`
	Base string `json:"base,omitempty"`
	N    int    `json:"n"`
	FT   string `json:"ft,omitempty"` // k-th call fails once
	FP   string `json:"fp,omitempty"` // every call from the k-th on fails
	FC   string `json:"fc,omitempty"` // k-th call fails with context.Canceled
	ST   string `json:"st,omitempty"` // k-th SQL statement fails once (inside the database driver, below the persister)
	SP   string `json:"sp,omitempty"` // every SQL statement from the k-th on fails
	SN   int    `json:"sn,omitempty"` // SQL statements of the fault-free run
	SL   string `json:"sl,omitempty"` // k-th SQL statement fails once with SQLite's lock conflict (reported as a serialisation conflict)
	CA   string `json:"ca,omitempty"` // request context cancelled before the k-th call (k=0: before start)
	CMs  []int  `json:"cms,omitempty"`
	WMs  int    `json:"wms,omitempty"` // time spent waiting for the goroutines of the cancelled runs to end
	CL   []int  `json:"cl,omitempty"`  // leaked goroutines after each cancel run
	CN   []int  `json:"cn,omitempty"`  // storage calls of each cancel run
	FN   []int  `json:"fn,omitempty"`  // storage calls of each transient-fault run
	Hang int    `json:"hang,omitempty"`
	// batch under faults: per failing call k, the codes of all entries
	BBase string   `json:"bbase,omitempty"`
	BN    int      `json:"bn,omitempty"`
	BE    []string `json:"be,omitempty"` // engine.BatchCheck
	BG    []string `json:"bg,omitempty"` // gRPC BatchCheck handler
	BR    []string `json:"br,omitempty"` // REST batch handler
	// plain mode: the batch transports at the request depths of bdepths (one string of entry codes per depth)
	PBE []string `json:"pbe,omitempty"`
	PBG []string `json:"pbg,omitempty"`
	PBR []string `json:"pbr,omitempty"`
	// cancel mode: the request cancelled at storage call k through the API handlers, storage slow afterwards: [transport, k, ms, status]
	TC [][]any `json:"tc,omitempty"`
}

// memCode: I allowed, N not member, U unknown, E error, X error AND allowed.
func memCode(r checkgroup.Result) byte {
	if r.Err != nil {
		if r.Membership == checkgroup.IsMember {
			return 'X'
		}
		return 'E'
	}
	switch r.Membership {
	case checkgroup.IsMember:
		return 'I'
	case checkgroup.NotMember:
		return 'N'
	}
	return 'U'
}

type checkEnv struct {
	reg *driver.RegistryDefault
	eng *check.Engine
	w   *storeWrap
}

// handlerDeps gives the check handler the engine with the wrapped storage.
type handlerDeps struct {
	*driver.RegistryDefault
	eng *check.Engine
}

func (h handlerDeps) PermissionEngine() *check.Engine { return h.eng }

// batch runs all queries as one batch through the engine, the gRPC handler and
// the REST handler; an entry is I/N (no error) or E (error, not allowed) or X
// (error and allowed).
func (e *checkEnv) batch(t testing.TB, qs []*ketoapi.RelationTuple, depth int, pre func(rs *runState)) (eng, grpcC, rest string, calls int) {
	h := check.NewHandler(handlerDeps{e.reg, e.eng})
	code := func(allowed bool, errMsg string) byte {
		switch {
		case errMsg != "" && allowed:
			return 'X'
		case errMsg != "":
			return 'E'
		case allowed:
			return 'I'
		}
		return 'N'
	}
	var last *runState
	run := func(f func(ctx context.Context) string) string {
		rs := &runState{}
		last = rs
		ctx, cancel := context.WithCancel(withRunState(context.Background(), rs))
		defer cancel()
		if pre != nil {
			pre(rs)
		}
		if hangs >= maxHangs {
			return "H" // a check of this process does not return and keeps its processors: nothing more is measured here
		}
		done := make(chan string, 1)
		go func() { done <- f(ctx) }()
		select {
		case s := <-done:
			return s
		case <-time.After(hangGrace):
			hangs++
			return "H"
		}
	}
	eng = run(func(ctx context.Context) string {
		rs, err := e.eng.BatchCheck(ctx, qs, depth)
		if err != nil {
			return "!"
		}
		b := make([]byte, len(rs))
		for i, r := range rs {
			b[i] = memCode(r)
			if b[i] == 'U' {
				b[i] = 'N'
			}
		}
		return string(b)
	})
	calls = last.calls()
	grpcC = run(func(ctx context.Context) string {
		req := &rts.BatchCheckRequest{MaxDepth: int32(depth)}
		for _, q := range qs {
			req.Tuples = append(req.Tuples, q.ToProto())
		}
		resp, err := h.BatchCheck(ctx, req)
		if err != nil {
			return "!"
		}
		b := make([]byte, len(resp.Results))
		for i, r := range resp.Results {
			b[i] = code(r.Allowed, r.Error)
		}
		return string(b)
	})
	rest = run(func(ctx context.Context) string {
		router := &x.ReadRouter{Router: httprouter.New()}
		h.RegisterReadRoutes(router)
		body, _ := json.Marshal(map[string]any{"tuples": qs})
		req := httptest.NewRequest("POST", fmt.Sprintf("%s?max-depth=%d", check.BatchRoute, depth), bytes.NewReader(body)).WithContext(ctx)
		rec := httptest.NewRecorder()
		router.ServeHTTP(rec, req)
		if rec.Code != 200 {
			return "!"
		}
		var resp struct {
			Results []struct {
				Allowed bool   `json:"allowed"`
				Error   string `json:"error"`
			} `json:"results"`
		}
		if err := json.Unmarshal(rec.Body.Bytes(), &resp); err != nil {
			return "?"
		}
		b := make([]byte, len(resp.Results))
		for i, r := range resp.Results {
			b[i] = code(r.Allowed, r.Error)
		}
		return string(b)
	})
	return
}

// runCheck runs one check with its own context; returns the result code, or
// 'H' if it did not return within the grace period.
func (e *checkEnv) runCheck(t testing.TB, q *ketoapi.RelationTuple, depth int, pre func(rs *runState, cancel context.CancelFunc)) (byte, int, time.Duration) {
	it := internalTuple(t, e.reg, q)
	rs := &runState{}
	ctx, cancel := context.WithCancel(withRunState(context.Background(), rs))
	defer cancel()
	if pre != nil {
		pre(rs, cancel)
	}
	t0 := time.Now()
	if hangs >= maxHangs {
		return 'H', 0, 0 // a check of this process does not return and keeps its processors: nothing more is measured here
	}
	done := make(chan checkgroup.Result, 1)
	go func() { done <- e.eng.CheckRelationTuple(ctx, it, depth) }()
	select {
	case r := <-done:
		return memCode(r), rs.calls(), time.Since(t0)
	case <-time.After(hangGrace):
		hangs++
		return 'H', rs.calls(), time.Since(t0)
	}
}

// transportCancel sends the check through an API handler, cancels the request's
// context at the gate before storage call k, and makes storage slow from then
// on (it returns at once when the context it was given is done, else after
// slowStorage). A handler and engine that hand the request's context down
// return within milliseconds.
const slowStorage = 8 * time.Second

var slowCancels int // cancellations that took the slow path; after the first the point is made and each further one would cost seconds per storage call

func (e *checkEnv) transportCancel(t testing.TB, transport string, q *ketoapi.RelationTuple, depth, k int) (ms int, st string) {
	if slowCancels >= 1 {
		return 0, "skipped"
	}
	defer func() {
		if ms > 4000 {
			slowCancels++
		}
	}()
	h := check.NewHandler(handlerDeps{e.reg, e.eng})
	rs := &runState{slowAfterCancel: true, slowFor: slowStorage}
	ctx, cancel := context.WithCancel(withRunState(context.Background(), rs))
	defer cancel()
	rs.cancelAt, rs.cancelFn = k, cancel
	t0 := time.Now()
	done := make(chan string, 1)
	go func() {
		defer func() {
			if r := recover(); r != nil {
				done <- fmt.Sprint("panic: ", r)
			}
		}()
		switch transport {
		case "rest":
			router := &x.ReadRouter{Router: httprouter.New()}
			h.RegisterReadRoutes(router)
			qs := q.ToURLQuery()
			qs.Set("max-depth", fmt.Sprint(depth))
			req := httptest.NewRequest("GET", check.RouteBase+"?"+qs.Encode(), nil).WithContext(ctx)
			rec := httptest.NewRecorder()
			router.ServeHTTP(rec, req)
			done <- fmt.Sprint(rec.Code)
		case "grpc":
			_, err := h.Check(ctx, &rts.CheckRequest{Tuple: q.ToProto(), MaxDepth: int32(depth)})
			done <- fmt.Sprint(status.Code(err))
		default:
			_, err := h.BatchCheck(ctx, &rts.BatchCheckRequest{Tuples: []*rts.RelationTuple{q.ToProto(), q.ToProto()}, MaxDepth: int32(depth)})
			done <- fmt.Sprint(status.Code(err))
		}
	}()
	select {
	case s := <-done:
		return int(time.Since(t0).Milliseconds()), s
	case <-time.After(hangGrace):
		return int(time.Since(t0).Milliseconds()), "hang"
	}
}

// A check that has not returned after hangGrace is recorded as 'H'. After
// maxHangs of them the shard stops (each costs the full grace period) and says so.
const hangGrace = 10 * time.Second
const maxHangs = 1

var hangs int
var leaksSeen int

func waitNoKetoGoroutines(max time.Duration) (int, string) {
	deadline := time.Now().Add(max)
	for {
		n, s := ketoGoroutines()
		if n == 0 || time.Now().After(deadline) {
			return n, s
		}
		time.Sleep(5 * time.Millisecond)
	}
}

func init() { families["check"] = famCheck }

func famCheck(t *testing.T) {
	var in checkIn
	readJSON(*fIn, &in)
	out := newNDWriter(*fOut)
	defer out.close()
	si, sn := shard()
	if in.Mode == "trace" {
		rec.start()
		defer func() {
			// let stragglers finish so that their groups are complete
			waitNoKetoGoroutines(3 * time.Second)
			rec.stop()
			logs, open := rec.completeLogs()
			tw := newNDWriter(*fTrace + fmt.Sprintf(".%d", si))
			nev := 0
			for _, l := range logs {
				for _, ev := range l {
					tw.write(ev)
					nev++
				}
			}
			tw.close()
			out.write(map[string]any{"traces": len(logs), "events": nev, "open": open})
		}()
	}

	type envKey struct {
		f  string
		st bool
		w  int
	}
	mkEnv := func(t *testing.T, k envKey) *checkEnv {
		def := in.Defs[k.f]
		ro := regOpts{strict: k.st, width: def.Widths[k.w], gdepth: in.GDepth}
		if def.Legacy {
			ro.nss = def.Cfg.namespaces()
		} else {
			ro.opl = def.Cfg.opl()
			parsed, perrs := schema.Parse(ro.opl)
			if len(perrs) > 0 {
				t.Fatalf("family %s: generated OPL does not parse: %v\n%s", k.f, perrs, ro.opl)
			}
			var pp []*namespace.Namespace
			for i := range parsed {
				pp = append(pp, &parsed[i])
			}
			if a, b := relationsJSON(pp), relationsJSON(def.Cfg.namespaces()); a != b {
				t.Fatalf("family %s: the parser's AST differs from the specification's AST\nparsed: %s\nspec:   %s\n%s", k.f, a, b, ro.opl)
			}
		}
		reg := newRegistry(t, ro)
		d, w := newEngineDeps(reg)
		return &checkEnv{reg: reg, eng: check.NewEngine(d), w: w}
	}

	// one registry (and one file watcher) alive at a time: environments are
	// visited in turn, each inside a subtest whose cleanup releases it
	var keys []envKey
	seen := map[envKey]bool{}
	for _, g := range in.Groups {
		def := in.Defs[g.F]
		widths := in.Widths
		if len(widths) == 0 {
			for wi := range def.Widths {
				widths = append(widths, wi)
			}
		}
		for _, wi := range widths {
			k := envKey{g.F, g.St, wi}
			if !seen[k] {
				seen[k] = true
				keys = append(keys, k)
			}
		}
	}

	for _, key := range keys {
		key := key
		t.Run(fmt.Sprintf("%s-%v-%d", key.f, key.st, key.w), func(t *testing.T) {
			var e *checkEnv
			for gi, g := range in.Groups {
				if gi%sn != si || g.F != key.f || g.St != key.st {
					continue
				}
				if hangs >= maxHangs {
					out.write(map[string]any{"abort": "hangs", "g": gi})
					return
				}
				if e == nil {
					e = mkEnv(t, key)
				}
				def := in.Defs[g.F]
				wi := key.w
				inS := map[int]bool{}
				for _, i := range g.S {
					inS[i] = true
				}
				var stored []*ketoapi.RelationTuple
				for _, i := range def.Ords[g.O-1] {
					if inS[i] {
						stored = append(stored, def.U[i-1].api())
					}
				}
				qsel := in.QSel
				if len(qsel) == 0 {
					for qi := range def.Q {
						qsel = append(qsel, qi)
					}
				}
				resetTuples(t, e.reg)
				writeOrdered(t, e.reg, stored)
				runGroup(t, &in, out, e, gi, wi, def, qsel)
			}
		})
	}
	_ = errors.New
	_ = json.Marshal
}

func runGroup(t *testing.T, in *checkIn, out *ndWriter, e *checkEnv, gi, wi int, def *famDef, qsel []int) {
	switch in.Mode {
	case "", "plain":
		for run := 0; run <= in.Scheds; run++ {
			o := checkOut{G: gi, W: wi, Run: run}
			for _, qi := range qsel {
				q := def.Q[qi].api()
				codes := make([]byte, len(in.RDepths))
				calls := make([]int, len(in.RDepths))
				for di, d := range in.RDepths {
					seed := uint64(0)
					if run > 0 {
						seed = uint64(*fSeed)*1000003 + uint64(run)*7919 + uint64(gi)*31 + uint64(qi)
					}
					c, n, _ := e.runCheck(t, q, d, func(rs *runState, _ context.CancelFunc) { rs.delaySeed = seed })
					codes[di], calls[di] = c, n
				}
				o.Res = append(o.Res, string(codes))
				o.Calls = append(o.Calls, calls)
			}
			if run == 0 && len(in.BDepths) > 0 {
				var qs []*ketoapi.RelationTuple
				for _, qi := range qsel {
					qs = append(qs, def.Q[qi].api())
				}
				for _, d := range in.BDepths {
					be, bg, br, _ := e.batch(t, qs, d, nil)
					o.PBE, o.PBG, o.PBR = append(o.PBE, be), append(o.PBG, bg), append(o.PBR, br)
				}
			}
			out.write(o)
		}
	case "fault":
		for _, qi := range qsel {
			q := def.Q[qi].api()
			for _, d := range in.RDepths {
				base, n, _ := e.runCheck(t, q, d, nil)
				o := checkOut{G: gi, W: wi, Q: qi, D: d, Base: string(base), N: n}
				var ft, fp, fc []byte
				for k := 1; k <= n+1; k++ {
					c, fn, _ := e.runCheck(t, q, d, func(rs *runState, _ context.CancelFunc) { rs.failAt = k })
					ft = append(ft, c)
					o.FN = append(o.FN, fn)
					c, _, _ = e.runCheck(t, q, d, func(rs *runState, _ context.CancelFunc) { rs.failAt, rs.failAll = k, true })
					fp = append(fp, c)
					c, _, _ = e.runCheck(t, q, d, func(rs *runState, _ context.CancelFunc) {
						rs.failAt, rs.failErr = k, fmt.Errorf("query: %w", context.Canceled)
					})
					fc = append(fc, c)
				}
				o.FT, o.FP, o.FC = string(ft), string(fp), string(fc)
				if d == in.RDepths[len(in.RDepths)-1] {
					// the same sweep one layer down: the k-th SQL statement, once and from then on
					waitNoKetoGoroutines(500 * time.Millisecond)
					sqlCtl.begin(0, 0)
					e.runCheck(t, q, d, nil)
					o.SN = len(sqlCtl.end())
					var st, sp, sl []byte
					for k := 1; k <= o.SN+1; k++ {
						waitNoKetoGoroutines(200 * time.Millisecond)
						sqlCtl.beginLocked(k)
						cl, _, _ := e.runCheck(t, q, d, nil)
						sqlCtl.end()
						sl = append(sl, cl)
						waitNoKetoGoroutines(200 * time.Millisecond)
						sqlCtl.begin(k, 0)
						c, _, _ := e.runCheck(t, q, d, nil)
						sqlCtl.end()
						st = append(st, c)
						waitNoKetoGoroutines(200 * time.Millisecond)
						sqlCtl.beginPersistent(k)
						c, _, _ = e.runCheck(t, q, d, nil)
						sqlCtl.end()
						sp = append(sp, c)
					}
					o.ST, o.SP, o.SL = string(st), string(sp), string(sl)
				}
				out.write(o)
			}
		}
		{
			var qs []*ketoapi.RelationTuple
			for _, qi := range qsel {
				qs = append(qs, def.Q[qi].api())
			}
			d := in.RDepths[len(in.RDepths)-1]
			bb, _, _, n := e.batch(t, qs, d, nil)
			o := checkOut{G: gi, W: wi, Q: -1, D: d, BBase: bb, BN: n}
			for k := 1; k <= n+1; k++ {
				be, bg, br, _ := e.batch(t, qs, d, func(rs *runState) { rs.failAt = k })
				o.BE, o.BG, o.BR = append(o.BE, be), append(o.BG, bg), append(o.BR, br)
			}
			out.write(o)
		}
	case "cancel":
		for _, qi := range qsel {
			q := def.Q[qi].api()
			for _, d := range in.RDepths {
				base, n, _ := e.runCheck(t, q, d, nil)
				o := checkOut{G: gi, W: wi, Q: qi, D: d, Base: string(base), N: n}
				var ca []byte
				for k := 0; k <= n+1; k++ {
					// the slowness belongs to this run: a straggler that reaches storage call k after the check has
					// returned (short circuit) must not switch it on for whatever the harness does next
					var slowMu sync.Mutex
					returned := false
					c, cn, el := e.runCheck(t, q, d, func(rs *runState, cancel context.CancelFunc) {
						if k == 0 {
							cancel()
						} else {
							// from the moment of the cancellation the database is slow for statements that do not carry
							// the request's context (8 s; see sqlSlow) - unless leaks are already established
							rs.cancelAt, rs.cancelFn = k, func() {
								slowMu.Lock()
								if leaksSeen < 3 && !returned {
									sqlSlowFor.Store(int64(8 * time.Second))
								}
								slowMu.Unlock()
								cancel()
							}
						}
					})
					slowMu.Lock()
					returned = true
					sqlSlowFor.Store(0)
					slowMu.Unlock()
					if c == 'H' {
						o.Hang++
					}
					ca = append(ca, c)
					o.CMs = append(o.CMs, int(el.Milliseconds()))
					o.CN = append(o.CN, cn)
					lw := 5 * time.Second
					if leaksSeen >= 3 {
						lw = 300 * time.Millisecond // leaks are established; do not pay the full grace period again
					}
					tw0 := time.Now()
					l, ls := waitNoKetoGoroutines(lw)
					o.WMs += int(time.Since(tw0).Milliseconds())
					if l > 0 {
						leaksSeen++
					}
					o.CL = append(o.CL, l)
					if l > 0 && o.LeakS == "" {
						o.LeakS = ls
					}
				}
				o.CA = string(ca)
				if n >= 1 && d == in.RDepths[len(in.RDepths)-1] {
					ks := map[int]bool{1: true, (n + 1) / 2: true, n: true}
					for k := range ks {
						for _, tr := range []string{"rest", "grpc", "grpc_batch"} {
							ms, status := e.transportCancel(t, tr, q, d, k)
							o.TC = append(o.TC, []any{tr, k, ms, status})
						}
						waitNoKetoGoroutines(2 * time.Second)
					}
				}
				out.write(o)
			}
		}
	case "trace":
		// a mix of undisturbed, cancelled and faulted runs, recorded through hook H2
		for _, qi := range qsel {
			q := def.Q[qi].api()
			for _, d := range in.RDepths {
				_, n, _ := e.runCheck(t, q, d, nil)
				for k := 0; k <= n; k++ {
					if (k+gi+qi)%3 == 0 {
						e.runCheck(t, q, d, func(rs *runState, cancel context.CancelFunc) {
							if k == 0 {
								cancel()
							} else {
								rs.cancelAt, rs.cancelFn = k, cancel
							}
						})
					} else if k > 0 {
						e.runCheck(t, q, d, func(rs *runState, _ context.CancelFunc) { rs.failAt = k })
					}
				}
			}
		}
	default:
		t.Fatalf("unknown mode %q", in.Mode)
	}
}
