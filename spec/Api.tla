-------------------------------- MODULE Api --------------------------------
(***************************************************************************)
(* The transport layer of the check API: how one engine decision is        *)
(* reported by each endpoint, and how a batch is the position-wise map of  *)
(* single checks.  The decision itself is the engine's (KetoCheck.tla);    *)
(* this module is about the mapping, so it is parameterised by an          *)
(* arbitrary decision per tuple.                                           *)
(***************************************************************************)
EXTENDS Integers, Sequences, FiniteSets, TLC, Json

CONSTANTS MaxBatch,   \* configured maximum batch size
          NQ,         \* number of distinct query tuples the batches draw from
          MaxLen      \* batches of every composition up to this length are enumerated

\* what a tuple in a request can be
Classes == {"valid", "unknownns", "nosubject"}
Decisions == {"allowed", "denied"}
SingleTransports == {"rest_get_mirror", "rest_post_mirror", "rest_get_openapi", "rest_post_openapi", "grpc_check"}
BatchTransports == {"engine_batch", "rest_batch", "grpc_batch"}

\* a reply: status class, the allowed flag (FALSE when absent), whether an error is reported
R(st, al, er) == [status |-> st, allowed |-> al, error |-> er]

\* how one tuple is answered by a single-check transport
Resp(tr, c, d) ==
  CASE c = "nosubject" ->
         IF tr = "grpc_check" THEN R("InvalidArgument", FALSE, TRUE) ELSE R("400", FALSE, TRUE)
    [] c = "unknownns" ->
         CASE tr \in {"rest_get_mirror", "rest_post_mirror"} -> R("403", FALSE, FALSE)
           [] tr \in {"rest_get_openapi", "rest_post_openapi"} -> R("200", FALSE, FALSE)
           [] OTHER -> R("NotFound", FALSE, TRUE)
    [] OTHER ->
         CASE tr \in {"rest_get_mirror", "rest_post_mirror"} -> R(IF d = "allowed" THEN "200" ELSE "403", d = "allowed", FALSE)
           [] tr \in {"rest_get_openapi", "rest_post_openapi"} -> R("200", d = "allowed", FALSE)
           [] OTHER -> R("OK", d = "allowed", FALSE)

\* one entry of a batch reply: errors are local to the entry
Entry(c, d) == IF c = "valid" THEN [allowed |-> d = "allowed", error |-> FALSE] ELSE [allowed |-> FALSE, error |-> TRUE]

\* a batch is a sequence of [c, d] pairs; too large a batch is rejected as a whole
BatchResp(tr, b) ==
  IF Len(b) > MaxBatch
  THEN [status |-> IF tr = "grpc_batch" THEN "InvalidArgument" ELSE "400", results |-> <<>>]
  ELSE [status |-> "OK", results |-> [i \in 1..Len(b) |-> Entry(b[i].c, b[i].d)]]

(****************************** properties ******************************)
Pairs == [c : Classes, d : Decisions]
\* every transport reports the engine's decision for a valid tuple
AllAgree == \A tr \in SingleTransports, d \in Decisions : Resp(tr, "valid", d).allowed = (d = "allowed")
\* an unknown namespace is never reported as allowed
NeverAllowedUnknown == \A tr \in SingleTransports, d \in Decisions : ~Resp(tr, "unknownns", d).allowed
\* status mirroring: 200 exactly when allowed, 403 exactly when denied
Mirror == \A tr \in {"rest_get_mirror", "rest_post_mirror"}, p \in Pairs :
            LET r == Resp(tr, p.c, p.d) IN
              /\ (r.status = "200") <=> r.allowed
              /\ (r.status = "403") <=> (~r.allowed /\ ~r.error)
\* never allowed together with an error
NoAllowedError == \A tr \in SingleTransports, p \in Pairs : ~(Resp(tr, p.c, p.d).allowed /\ Resp(tr, p.c, p.d).error)
ASSUME AllAgree /\ NeverAllowedUnknown /\ Mirror /\ NoAllowedError

(****************************** generation ******************************)
\* batches as sequences of query indices: every composition up to MaxLen
\* (duplicates and all orders included), plus the size limit and one beyond
VARIABLES b, done
vars == <<b, done>>
SeqsUpTo(S, n) == UNION {[1..k -> S] : k \in 0..n}
Big(n) == [i \in 1..n |-> ((i * 7) % NQ) + 1]
Init == b \in SeqsUpTo(1..NQ, MaxLen) \cup {Big(MaxBatch), Big(MaxBatch + 1), Big(MaxBatch - 1)} /\ done = FALSE
\* batch = single, position by position, in request order, one result per tuple
BatchIsPointwise(bb) ==
  \A tr \in BatchTransports :
    LET r == BatchResp(tr, bb) IN
      Len(bb) <= MaxBatch => /\ Len(r.results) = Len(bb)
                             /\ \A i \in 1..Len(bb) : r.results[i] = Entry(bb[i].c, bb[i].d)
Next == /\ ~done /\ done' = TRUE /\ b' = b
        /\ PrintT(ToJson([batch |-> b, toolarge |-> Len(b) > MaxBatch]))
        /\ (b = <<>> => PrintT(ToJson([table |-> [tr \in SingleTransports |-> [c \in Classes |-> [d \in Decisions |-> Resp(tr, c, d)]]],
                                      entry |-> [c \in Classes |-> [d \in Decisions |-> Entry(c, d)]],
                                      maxbatch |-> MaxBatch])))
Spec == Init /\ [][Next]_vars
\* checked for every classification/decision assignment of the batch's tuples
Used == {b[i] : i \in 1..Len(b)}
Canon == [q \in 1..NQ |-> [c |-> IF q % 3 = 0 THEN "unknownns" ELSE IF q % 5 = 0 THEN "nosubject" ELSE "valid",
                           d |-> IF q % 2 = 0 THEN "allowed" ELSE "denied"]]
Pointwise == IF Len(b) <= MaxLen
             THEN \A f \in [Used -> Pairs] : BatchIsPointwise([i \in 1..Len(b) |-> f[b[i]]])
             ELSE BatchIsPointwise([i \in 1..Len(b) |-> Canon[b[i]]])
=============================================================================
