----------------------------- MODULE TraceReload -----------------------------
(***************************************************************************)
(* Trace validation for configuration reloads: the harness records, in one *)
(* totally ordered log, when the writer STARTS replacing or removing a     *)
(* watched file and every change of what a sampler sees through            *)
(* NamespaceManager().Namespaces() (per file: the version whose namespaces *)
(* are visible, 0 = none, -1 = a partial or mixed set).  An observation    *)
(* must be a state Reload.tla allows given the writes started so far:      *)
(*   - never partial, never an invalid version, only versions written,     *)
(*   - nothing for a file only before one of its valid versions was first  *)
(*     shown, or after a removal of it was started,                        *)
(*   - the final (quiescent) observation shows the last version of every   *)
(*     file whose last version is valid (OPL: if all files are valid).     *)
(***************************************************************************)
EXTENDS Integers, Sequences, FiniteSets, TLC, Json

CONSTANT TraceFile
Trace == ndJsonDeserialize(TraceFile)
Files == {"a", "b"}

VARIABLES l, variant, written, mayBeEmpty, exists, lastVer, lastValid,
          remVer   \* remVer[f]: the last version of f written before its latest removal was started (0 = never removed)
vars == <<l, variant, written, mayBeEmpty, exists, lastVer, lastValid, remVer>>

Init == /\ l = 1 /\ variant = "opl" /\ written = [f \in Files |-> {}] /\ mayBeEmpty = [f \in Files |-> TRUE]
        /\ exists = [f \in Files |-> FALSE] /\ lastVer = [f \in Files |-> 0] /\ lastValid = [f \in Files |-> FALSE]
        /\ remVer = [f \in Files |-> 0]
Ev(e) == l <= Len(Trace) /\ Trace[l].ev = e /\ l' = l + 1
E == Trace[l]
Obs(f) == IF f = "a" THEN E.o_a ELSE E.o_b

Reset == /\ Ev("reset") /\ variant' = E.variant
         /\ written' = [f \in Files |-> {}] /\ mayBeEmpty' = [f \in Files |-> TRUE]
         /\ exists' = [f \in Files |-> FALSE] /\ lastVer' = [f \in Files |-> 0] /\ lastValid' = [f \in Files |-> FALSE]
         /\ remVer' = [f \in Files |-> 0]
Write == /\ Ev("write")
         /\ written' = [written EXCEPT ![E.f] = @ \cup {<<E.v, E.valid>>}]
         /\ exists' = [exists EXCEPT ![E.f] = TRUE] /\ lastVer' = [lastVer EXCEPT ![E.f] = E.v]
         /\ lastValid' = [lastValid EXCEPT ![E.f] = E.valid]
         /\ UNCHANGED <<variant, mayBeEmpty, remVer>>
Remove == /\ Ev("remove")
          /\ exists' = [exists EXCEPT ![E.f] = FALSE] /\ mayBeEmpty' = [mayBeEmpty EXCEPT ![E.f] = TRUE]
          /\ remVer' = [remVer EXCEPT ![E.f] = lastVer[E.f]]
          /\ UNCHANGED <<variant, written, lastVer, lastValid>>
ObsOK(f) == LET o == Obs(f) IN
            \/ o = 0 /\ mayBeEmpty[f]
            \/ o > 0 /\ <<o, TRUE>> \in written[f]
            \/ o = 0 /\ variant = "opl" /\ o = 0 /\ FALSE
Observe == /\ Ev("obs")
           /\ \A f \in Files : ObsOK(f)
           \* a version written before the removal was started may still be shown while the removal is on its way:
           \* only a version written after it proves that the removal has been processed
           /\ mayBeEmpty' = [f \in Files |-> IF Obs(f) > remVer[f] THEN FALSE ELSE mayBeEmpty[f]]
           /\ UNCHANGED <<variant, written, exists, lastVer, lastValid, remVer>>
AllValid == \A f \in Files : ~exists[f] \/ lastValid[f]
FinalOK(f) == LET o == Obs(f) IN
              /\ (o = 0 /\ mayBeEmpty[f]) \/ (o > 0 /\ <<o, TRUE>> \in written[f]) \/ (o = 0 /\ ~exists[f])
              /\ (exists[f] /\ lastValid[f] /\ (variant # "opl" \/ AllValid)) => o = lastVer[f]
              /\ (~exists[f] /\ (variant # "opl" \/ AllValid)) => o = 0
Final == /\ Ev("final") /\ \A f \in Files : FinalOK(f)
         /\ UNCHANGED <<variant, written, mayBeEmpty, exists, lastVer, lastValid, remVer>>
Next == Reset \/ Write \/ Remove \/ Observe \/ Final
Spec == Init /\ [][Next]_vars
Accepted == TLCGet("stats").diameter - 1 = Len(Trace)
=============================================================================
