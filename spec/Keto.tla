-------------------------------- MODULE Keto --------------------------------
(***************************************************************************)
(* Checks running while relationships are written.                         *)
(*                                                                         *)
(* Keto evaluates a check with several storage reads outside any snapshot  *)
(* ("snaptoken: not yet implemented"), so a check that overlaps writes     *)
(* reads a different store at every step.  This module composes the store  *)
(* (a set of relationships that writers change at any moment) with the     *)
(* check engine at the grain of its storage reads, for the rewrite-free    *)
(* configuration (internal/check/engine.go, persistence/sql/traverser.go): *)
(*   Direct       checkDirect of the root: one EXISTS query                *)
(*   Expand(n)    checkExpandSubject of n: ONE statement that lists the    *)
(*                subject sets of n and, per subject set m, whether the    *)
(*                subject is a direct member of m; children that are not   *)
(*                in the check-wide visited set are expanded next (their   *)
(*                direct lookup is skipped: the statement already did it)  *)
(* The reads of one check are issued by concurrent goroutines, so any      *)
(* order of the outstanding reads is a behaviour.                          *)
(*                                                                         *)
(* What can and what cannot be promised:                                   *)
(*   QuietIsExact   a check that overlaps no write answers exactly         *)
(*                  membership in the (unchanged) store  -- the "writes    *)
(*                  are visible to every subsequently issued check" of C04 *)
(*   InsertOnly     if only inserts overlap: allowed => allowed in the     *)
(*                  store at the end; denied => denied in the store at the *)
(*                  start (and symmetrically for deletes only)             *)
(*   Linearizable   the answer equals membership in SOME store state that  *)
(*                  existed between start and end -- does NOT hold with    *)
(*                  mixed writes (TLC produces the anomaly), which is the  *)
(*                  gap a snapshot token would close.                      *)
(* hist records, per overlapping write, how many reads had completed       *)
(* before it; TLC prints every complete history with its answer so that    *)
(* the harness can replay the schedule against the real engine.            *)
(***************************************************************************)
EXTENDS Integers, Sequences, FiniteSets, TLC, Json

CONSTANTS MaxWrites,      \* writer steps per behaviour
          WriteKinds,     \* subset of {"ins", "del"}
          Emit            \* TRUE: print every completed history (generation); FALSE: model checking only

Nodes == {"s", "a", "b"}
User == "u"
\* relationships: <<node, subject>> with subject a node (subject set) or the user
Universe == {<<"s", "a">>, <<"s", "b">>, <<"a", User>>, <<"b", User>>, <<"a", "b">>, <<"b", "s">>}

VARIABLES store,     \* current set of relationships
          pc,        \* "idle" | "running" | "done"
          tasks,     \* outstanding reads: "D" (direct lookup of the root) or a node to expand
          visited, answer,
          startStore, \* store when the check started
          seenStores, \* every store state that existed while the check was running
          kinds,      \* kinds of writes that overlapped the check
          writes, reads,
          hist        \* <<reads completed, kind, relationship>> per overlapping write
vars == <<store, pc, tasks, visited, answer, startStore, seenStores, kinds, writes, reads, hist>>

\* membership of the user in node n in a given store (reachability)
RECURSIVE Member(_, _, _)
Member(st, n, path) == \/ <<n, User>> \in st
                       \/ \E m \in Nodes \ path : <<n, m>> \in st /\ Member(st, m, path \cup {m})
Allowed(st) == Member(st, "s", {"s"})

Init == /\ store \in SUBSET Universe /\ pc = "idle" /\ tasks = {} /\ visited = {} /\ answer = "none"
        /\ startStore = {} /\ seenStores = {} /\ kinds = {} /\ writes = 0 /\ reads = 0 /\ hist = <<>>

Start == /\ pc = "idle" /\ pc' = "running" /\ tasks' = {"D", "s"} /\ visited' = {} /\ answer' = "none"
         /\ startStore' = store /\ seenStores' = {store} /\ kinds' = {} /\ reads' = 0 /\ hist' = <<>>
         /\ UNCHANGED <<store, writes>>

Finish(a) == /\ answer' = a /\ pc' = "done"
             /\ Emit => PrintT(ToJson([init |-> startStore, sched |-> hist, answer |-> a]))

\* what the two kinds of read return in store st
DirectRes(st) == <<"s", User>> \in st
Kids(st, n) == {m \in Nodes : <<n, m>> \in st}
ExpandFound(st, n) == \E m \in Kids(st, n) : <<m, User>> \in st

Direct == /\ pc = "running" /\ "D" \in tasks
          /\ reads' = reads + 1
          /\ IF DirectRes(store)
             THEN Finish("allowed") /\ UNCHANGED <<tasks, visited>>
             ELSE /\ tasks' = tasks \ {"D"} /\ UNCHANGED visited
                  /\ IF tasks' = {} THEN Finish("denied") ELSE UNCHANGED <<answer, pc>>
          /\ UNCHANGED <<store, startStore, seenStores, kinds, writes, hist>>

Expand(n) == /\ pc = "running" /\ n \in tasks /\ n \in Nodes
             /\ reads' = reads + 1
             /\ IF ExpandFound(store, n)
                THEN Finish("allowed") /\ UNCHANGED <<tasks, visited>>
                ELSE /\ tasks' = (tasks \ {n}) \cup (Kids(store, n) \ visited)
                     /\ visited' = visited \cup Kids(store, n)
                     /\ IF tasks' = {} THEN Finish("denied") ELSE UNCHANGED <<answer, pc>>
             /\ UNCHANGED <<store, startStore, seenStores, kinds, writes, hist>>

\* (writes after the check has answered are irrelevant to the claims and are not explored)
Write(kind, t) == /\ pc # "done" /\ writes < MaxWrites /\ kind \in WriteKinds
                  /\ IF kind = "ins" THEN t \notin store /\ store' = store \cup {t} ELSE t \in store /\ store' = store \ {t}
                  /\ writes' = writes + 1
                  /\ IF pc = "running"
                     THEN /\ seenStores' = seenStores \cup {store'} /\ kinds' = kinds \cup {kind}
                          /\ hist' = Append(hist, <<reads, kind, t>>)
                     ELSE UNCHANGED <<seenStores, kinds, hist>>
                  /\ UNCHANGED <<pc, tasks, visited, answer, startStore, reads>>

Next == Start \/ Direct \/ (\E n \in Nodes : Expand(n)) \/ (\E k \in {"ins", "del"}, t \in Universe : Write(k, t))
Spec == Init /\ [][Next]_vars

Done == pc = "done"
QuietIsExact == (Done /\ kinds = {}) => (answer = "allowed") = Allowed(startStore)
InsertOnly == (Done /\ kinds \subseteq {"ins"}) => /\ (answer = "allowed" => Allowed(store))
                                                   /\ (answer = "denied" => ~Allowed(startStore))
DeleteOnly == (Done /\ kinds \subseteq {"del"}) => /\ (answer = "allowed" => Allowed(startStore))
                                                   /\ (answer = "denied" => ~Allowed(store))
\* expected to FAIL with mixed writes: the answer matches no store that ever existed during the check
Linearizable == Done => \E st \in seenStores : (answer = "allowed") = Allowed(st)
\* a check terminates: every read removes a task and adds only never-visited nodes
TypeOK == /\ tasks \subseteq Nodes \cup {"D"} /\ visited \subseteq Nodes /\ reads <= 2 + Cardinality(Nodes)
=============================================================================
