package zzverif

import (
	"context"
	"testing"

	"github.com/ory/keto/internal/check"
	"github.com/ory/keto/ketoapi"
)

// checkdbg: replay one case and print the storage-call log (used by --replay).
type dbgIn struct {
	Defs   map[string]*famDef `json:"defs"`
	F      string             `json:"f"`
	St     bool               `json:"st"`
	Stored []jtuple           `json:"stored"`
	Query  jtuple             `json:"query"`
	Depth  int                `json:"depth"`
	GDepth int                `json:"gdepth"`
	Width  int                `json:"width"`
}

func init() { families["checkdbg"] = famCheckDbg }

func famCheckDbg(t *testing.T) {
	var in dbgIn
	readJSON(*fIn, &in)
	out := newNDWriter(*fOut)
	defer out.close()
	def := in.Defs[in.F]
	ro := regOpts{strict: in.St, width: in.Width, gdepth: in.GDepth}
	if def.Legacy {
		ro.nss = def.Cfg.namespaces()
	} else {
		ro.opl = def.Cfg.opl()
	}
	reg := newRegistry(t, ro)
	d, _ := newEngineDeps(reg)
	eng := check.NewEngine(d)
	var stored []*ketoapi.RelationTuple
	for _, s := range in.Stored {
		stored = append(stored, s.api())
	}
	writeOrdered(t, reg, stored)
	rs := &runState{keepLog: true}
	ctx, cancel := context.WithCancel(withRunState(context.Background(), rs))
	defer cancel()
	r := eng.CheckRelationTuple(ctx, internalTuple(t, reg, in.Query.api()), in.Depth)
	errs := ""
	if r.Err != nil {
		errs = r.Err.Error()
	}
	out.write(map[string]any{"code": string(memCode(r)), "err": errs, "calls": rs.log, "opl": ro.opl})
}
