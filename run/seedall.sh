#!/bin/bash
# verifies a sub-agent's seed in a scratch worktree, then (holding the /repo lock) runs the given quick checks against it
# usage: run/seedall.sh <seed dir> <name> <ID> [<ID> ...]      (appends to /tmp/seedall.log)
src=$1; name=$2; shift 2
cd "$(dirname "$0")/.."
python3 run/seedverify.py "$src" "$name" > /tmp/seed/verify_$name.log 2>&1
if ! grep -q '"confirmed": true' /tmp/seed/verify_$name.log; then echo "$name NOT CONFIRMED" >> /tmp/seedall.log; exit 1; fi
(
  flock 9
  echo "== $name" >> /tmp/seedall.log
  bash run/seedrun.sh /verif/seeded/$name/patch.diff "$@" >> /tmp/seedall.log 2>&1
) 9>/tmp/repo.lock
