---------------------------- MODULE KetoCheck ----------------------------
(***************************************************************************)
(* The permission check of Ory Keto.                                       *)
(*                                                                         *)
(* Part 1 (property level): RefSem, the Zanzibar meaning of a check for a  *)
(* namespace configuration given as data, in default and in strict mode.   *)
(*                                                                         *)
(* Part 2 (implementation shaped): a big-step transcription of             *)
(* internal/check/{engine,rewrites,binop}.go and of the checkgroup's       *)
(* sequential result discipline: depth arithmetic, the OR-of-computed-     *)
(* subject-sets shortcut, width truncation, the visited set and its scope, *)
(* collapse of "unknown", storage-call counting and a fault position.      *)
(*                                                                         *)
(* Everything is an operator over a context record K so that one TLC run   *)
(* can enumerate configurations, stored states, storage orders and limits. *)
(***************************************************************************)
EXTENDS Integers, Sequences, FiniteSets, TLC

(***************************************************************************)
(* Configuration as data (the AST the engine sees, see namespace/ast).     *)
(***************************************************************************)
None      == [k |-> "none"]
CSS(r)    == [k |-> "css", rel |-> r]                  \* ComputedSubjectSet
TTU(r, c) == [k |-> "ttu", rel |-> r, crel |-> c]      \* TupleToSubjectSet
Or(cs)    == [k |-> "or", ch |-> cs]                   \* SubjectSetRewrite, OperatorOr
And(cs)   == [k |-> "and", ch |-> cs]                  \* SubjectSetRewrite, OperatorAnd
Not(c)    == [k |-> "not", c |-> c]                    \* InvertResult
\* ty: the declared subject types, a sequence of <<namespace, relation>> ("" = plain
\* namespace reference); ss: at least one SubjectSet<..> type is declared
Rel(ty, rw) == [ty |-> ty, ss |-> \E i \in 1..Len(ty) : ty[i][2] # "", rw |-> rw]
Permit(rw)  == Rel(<<>>, rw)

Id(u)        == <<"id", u>>
SS(n, o, r)  == <<"set", n, o, r>>
Tup(n, o, r, s) == <<n, o, r, s>>
NodeOf(t)    == <<t[1], t[2], t[3]>>
IsSet(s)     == s[1] = "set"
SetNode(s)   == <<s[2], s[3], s[4]>>

(***************************************************************************)
(* Context record K:                                                       *)
(*   cfg    namespace -> relation -> Rel(..)  (a namespace with an empty   *)
(*          relation record is "unconfigured": anything goes)              *)
(*   strict strict mode                                                    *)
(*   U      universe, a sequence of tuples (repeats are duplicates)        *)
(*   S      the stored rows, a set of indices into U                       *)
(*   ord    storage (shard_id) order, a permutation of 1..Len(U)           *)
(*   w      max width                                                      *)
(*   vm     visited mode: "shared" (one set for the whole check, as the    *)
(*          code was), "scoped" (operands of && and ! get their own),      *)
(*          "path" (never merged back: exhaustive exploration)             *)
(*   coll   unknown collapses to not-member in or/and/checkgroup (as the   *)
(*          code does); FALSE = three valued                               *)
(*   sc     short circuit on the first deciding result                     *)
(*   fk     index of the failing storage call, 0 = none                    *)
(*   alias  visited key is (object, ns-rel) with string concatenation      *)
(***************************************************************************)
Has(K, t)  == \E i \in K.S : K.U[i] = t
RowsOf(K, node) ==
  LET idx == SelectSeq(K.ord, LAMBDA i : i \in K.S /\ NodeOf(K.U[i]) = node)
  IN  [j \in 1..Len(idx) |-> K.U[idx[j]]]
SetRows(K, node) == SelectSeq(RowsOf(K, node), LAMBDA r : IsSet(r[4]))

HasNs(K, n)      == n \in DOMAIN K.cfg
Configured(K, n) == HasNs(K, n) /\ DOMAIN K.cfg[n] # {}
\* "free": no configuration applies; "known": resolves; "bad": schema error
RelKind(K, n, r) == IF r = "" \/ ~Configured(K, n) THEN "free"
                    ELSE IF r \in DOMAIN K.cfg[n] THEN "known" ELSE "bad"
RelOf(K, n, r)   == K.cfg[n][r]
HasRw(K, n, r)   == RelKind(K, n, r) = "known" /\ RelOf(K, n, r).rw.k # "none"
CanSS(K, n, r)   == ~K.strict \/ RelKind(K, n, r) # "known" \/ RelOf(K, n, r).ss
DirectOK(K, n, r) == ~K.strict \/ ~HasRw(K, n, r)

(***************************************************************************)
(* Part 1: reference semantics.  A subject is in node = (ns, obj, rel) iff *)
(* there is a direct tuple, or it is in a subject set that has the         *)
(* relation, or the relation's rewrite evaluates to true.  Recursion cuts  *)
(* a node that is already on the current path (least fixpoint for positive *)
(* cycles).  Meaningful when no cycle goes through a negation; the case    *)
(* families are stratified by construction, see Stratified below.          *)
(***************************************************************************)
RECURSIVE Holds(_, _, _, _), EvalRw(_, _, _, _, _)
Holds(K, node, sub, path) ==
  IF node \in path \/ RelKind(K, node[1], node[3]) = "bad" THEN FALSE
  ELSE LET p == path \cup {node} IN
       \/ DirectOK(K, node[1], node[3]) /\ Has(K, Tup(node[1], node[2], node[3], sub))
       \/ CanSS(K, node[1], node[3])
          /\ \E i \in K.S : /\ NodeOf(K.U[i]) = node /\ IsSet(K.U[i][4])
                            /\ Holds(K, SetNode(K.U[i][4]), sub, p)
       \/ HasRw(K, node[1], node[3]) /\ EvalRw(K, RelOf(K, node[1], node[3]).rw, node, sub, p)
EvalRw(K, rw, node, sub, p) ==
  CASE rw.k = "css" -> Holds(K, <<node[1], node[2], rw.rel>>, sub, p)
    [] rw.k = "ttu" -> \E i \in K.S : /\ NodeOf(K.U[i]) = <<node[1], node[2], rw.rel>>
                                      /\ IsSet(K.U[i][4])
                                      /\ Holds(K, <<K.U[i][4][2], K.U[i][4][3], rw.crel>>, sub, p)
    [] rw.k = "or"  -> \E i \in 1..Len(rw.ch) : EvalRw(K, rw.ch[i], node, sub, p)
    [] rw.k = "and" -> rw.ch # <<>> /\ \A i \in 1..Len(rw.ch) : EvalRw(K, rw.ch[i], node, sub, p)
    [] rw.k = "not" -> ~EvalRw(K, rw.c, node, sub, p)
\* The meaning of a check is that of default mode; strict mode is an
\* optimisation that must give the same answers on stores that conform to
\* the declared types (no tuples on permits, subject sets only where a
\* SubjectSet<..> type was declared).
RefSem(K, t) == Holds([K EXCEPT !.strict = FALSE], NodeOf(t), t[4], {})
Conforms(K) ==
  \A i \in K.S : LET t == K.U[i] IN
     /\ RelKind(K, t[1], t[3]) # "bad"
     /\ ~HasRw(K, t[1], t[3])
     /\ (IsSet(t[4]) /\ t[4][4] # "" /\ RelKind(K, t[1], t[3]) = "known") => RelOf(K, t[1], t[3]).ss

(***************************************************************************)
(* Stratification at the level of (namespace, relation): edges follow the  *)
(* rewrites and the subject sets the universe can store; a configuration   *)
(* family is admissible iff no cycle contains a negative edge.             *)
(***************************************************************************)
RelNodes(K) == UNION {{<<n, r>> : r \in DOMAIN K.cfg[n]} : n \in DOMAIN K.cfg}
                 \cup {<<K.U[i][1], K.U[i][3]>> : i \in 1..Len(K.U)}
                 \cup {<<K.U[i][4][2], K.U[i][4][4]>> : i \in {j \in 1..Len(K.U) : IsSet(K.U[j][4])}}
RECURSIVE RwEdges(_, _, _, _)
\* set of <<target relnode, negated?>> a rewrite on namespace n depends on
RwEdges(K, n, rw, neg) ==
  CASE rw.k = "css" -> {<<<<n, rw.rel>>, neg>>}
    [] rw.k = "ttu" -> {<<<<n, rw.rel>>, neg>>} \cup
                       {<<<<K.U[i][4][2], rw.crel>>, neg>> :
                          i \in {j \in 1..Len(K.U) : K.U[j][1] = n /\ K.U[j][3] = rw.rel /\ IsSet(K.U[j][4])}}
    [] rw.k \in {"or", "and"} -> UNION {RwEdges(K, n, rw.ch[i], neg) : i \in 1..Len(rw.ch)}
    [] rw.k = "not" -> RwEdges(K, n, rw.c, TRUE)
    [] OTHER -> {}
DepEdges(K) ==
  UNION {LET n == rn[1] r == rn[2] IN
           {<<rn, e[1], e[2]>> : e \in
              (IF HasRw(K, n, r) THEN RwEdges(K, n, RelOf(K, n, r).rw, FALSE) ELSE {})
              \cup {<<<<K.U[i][4][2], K.U[i][4][4]>>, FALSE>> :
                      i \in {j \in 1..Len(K.U) : K.U[j][1] = n /\ K.U[j][3] = r /\ IsSet(K.U[j][4])}}}
         : rn \in RelNodes(K)}
Stratified(K) ==
  LET E == DepEdges(K)
      N == RelNodes(K)
      RECURSIVE Close(_)
      Close(R) == LET R2 == R \cup {<<a, c>> \in N \X N : \E b \in N : <<a, b>> \in R /\ <<b, c>> \in R}
                  IN IF R2 = R THEN R ELSE Close(R2)
      reach == Close({<<e[1], e[2]>> : e \in E})
  IN  \A e \in E : e[3] => <<e[2], e[1]>> \notin reach /\ e[1] # e[2]

(***************************************************************************)
(* The same meaning, defined independently as a stratified least fixpoint  *)
(* over the finite set of nodes (for one fixed subject).  Stratum k is     *)
(* computed after stratum k-1 is complete; a negation is evaluated against *)
(* the completed lower strata.  Used as a self-check of RefSem (ASSUME in   *)
(* the case modules).                                                      *)
(***************************************************************************)
StratumOf(K) ==
  LET E == DepEdges(K)
      N == RelNodes(K)
      RECURSIVE It(_, _)
      It(f, fuel) ==
        LET g == [a \in N |-> LET vals == {(IF e[2] \in N THEN f[e[2]] ELSE 0) + (IF e[3] THEN 1 ELSE 0) : e \in {x \in E : x[1] = a}} \cup {0}
                               IN CHOOSE m \in vals : \A v \in vals : v <= m]
        IN IF g = f \/ fuel = 0 THEN f ELSE It(g, fuel - 1)
  IN  It([a \in N |-> 0], Cardinality(N) + 1)
RECURSIVE FixRw(_, _, _, _, _)
\* value of a rewrite on node; Mpos is the current approximation, Mlow the completed lower strata
FixRw(K, rw, node, Mpos, Mlow) ==
  CASE rw.k = "css" -> <<node[1], node[2], rw.rel>> \in Mpos
    [] rw.k = "ttu" -> \E i \in K.S : /\ NodeOf(K.U[i]) = <<node[1], node[2], rw.rel>>
                                      /\ IsSet(K.U[i][4])
                                      /\ <<K.U[i][4][2], K.U[i][4][3], rw.crel>> \in Mpos
    [] rw.k = "or"  -> \E i \in 1..Len(rw.ch) : FixRw(K, rw.ch[i], node, Mpos, Mlow)
    [] rw.k = "and" -> rw.ch # <<>> /\ \A i \in 1..Len(rw.ch) : FixRw(K, rw.ch[i], node, Mpos, Mlow)
    [] rw.k = "not" -> ~FixRw(K, rw.c, node, Mlow, Mlow)
RefSemFix(K0, t) ==
  LET K  == [K0 EXCEPT !.strict = FALSE]
      qn == NodeOf(t)
      sub == t[4]
      base == {NodeOf(K.U[i]) : i \in K.S} \cup {qn}
                \cup {SetNode(K.U[i][4]) : i \in {j \in K.S : IsSet(K.U[j][4])}}
      objs == {<<n[1], n[2]>> : n \in base}
      all  == base \cup {<<o[1], o[2], r>> : o \in objs, r \in UNION {DOMAIN K.cfg[m] : m \in DOMAIN K.cfg}}
      sOf  == StratumOf([K EXCEPT !.U = Append(K.U, Tup(qn[1], qn[2], qn[3], sub))])
      str(n) == IF <<n[1], n[3]>> \in DOMAIN sOf THEN sOf[<<n[1], n[3]>>] ELSE 0
      top  == CHOOSE m \in {str(n) : n \in all} : \A n \in all : str(n) <= m
      StepK(M, Mlow, k) ==
        M \cup {n \in all :
            /\ str(n) <= k
            /\ RelKind(K, n[1], n[3]) # "bad"
            /\ \/ Has(K, Tup(n[1], n[2], n[3], sub))
               \/ \E i \in K.S : NodeOf(K.U[i]) = n /\ IsSet(K.U[i][4]) /\ SetNode(K.U[i][4]) \in M
               \/ HasRw(K, n[1], n[3]) /\ FixRw(K, RelOf(K, n[1], n[3]).rw, n, M, Mlow)}
      RECURSIVE Grow(_, _, _, _), Strata(_, _)
      Grow(M, Mlow, k, fuel) == LET M2 == StepK(M, Mlow, k) IN IF M2 = M \/ fuel = 0 THEN M ELSE Grow(M2, Mlow, k, fuel - 1)
      Strata(Mlow, k) == IF k > top THEN Mlow ELSE Strata(Grow(Mlow, Mlow, k, Cardinality(all) + 1), k + 1)
  IN  qn \in Strata({}, 0)

(***************************************************************************)
(* Part 2: the engine as written.                                          *)
(* A result is [m, e]: membership "is" | "not" | "unk" and an error flag.  *)
(* The threaded state st is [v: visited, cut: a limit was hit, n: storage  *)
(* calls issued so far, bad: an undeclared relation was asked for].                                                   *)
(***************************************************************************)
Res(m, e) == [m |-> m, e |-> e]
Unk   == Res("unk", FALSE)
IsM   == Res("is", FALSE)
NotM  == Res("not", FALSE)
ErrR  == Res("unk", TRUE)
Out(r, st) == [r |-> r, st |-> st]
NoVis == [has |-> FALSE, s |-> {}]
St0   == [v |-> NoVis, cut |-> FALSE, n |-> 0, bad |-> FALSE]
Cut(st)   == [st EXCEPT !.cut = TRUE]
Call(st)  == [st EXCEPT !.n = @ + 1]
Fails(K, st) == K.fk # 0 /\ st.n + 1 = K.fk      \* the next call is the failing one
VisKey(K, n) == IF K.alias THEN <<n[2], n[1] \o "-" \o n[3]>> ELSE n
Decides(r) == r.e \/ r.m = "is"

\* how a sequence of results is folded by the checkgroup consumer and by or()
\* acc = "saw an unknown"
OrFold(K, r, sawUnk) == IF r.m = "unk" /\ ~r.e THEN TRUE ELSE sawUnk
OrEnd(K, sawUnk)     == IF ~K.coll /\ sawUnk THEN Unk ELSE NotM

RECURSIVE CIA(_, _, _, _, _), RunGroup(_, _, _, _, _, _), Expand(_, _, _, _),
          ExpandKids(_, _, _, _, _, _), Rw(_, _, _, _, _), RunOr(_, _, _, _, _, _, _),
          RunAnd(_, _, _, _, _, _, _), Child(_, _, _, _, _), TTUKids(_, _, _, _, _, _, _),
          Shortcut(_, _, _, _, _), ShortKids(_, _, _, _, _, _)

\* checkIsAllowed: a checkgroup of (rewrite, direct, expand) in Add order
CIA(K, t, d, skip, st) ==
  IF d <= 0 THEN Out(Unk, Cut(st))
  ELSE IF RelKind(K, t[1], t[3]) = "bad" THEN Out(ErrR, [st EXCEPT !.bad = TRUE])
  ELSE LET cs == (IF HasRw(K, t[1], t[3]) THEN <<"rw">> ELSE <<>>)
              \o (IF DirectOK(K, t[1], t[3]) /\ ~skip THEN <<"direct">> ELSE <<>>)
              \o (IF CanSS(K, t[1], t[3]) THEN <<"expand">> ELSE <<>>)
       IN RunGroup(K, t, d, cs, FALSE, st)

RunGroup(K, t, d, cs, sawUnk, st) ==
  IF cs = <<>> THEN Out(OrEnd(K, sawUnk), st)
  ELSE LET o == CASE Head(cs) = "rw" -> Rw(K, t, RelOf(K, t[1], t[3]).rw, d, st)
                  [] Head(cs) = "direct" ->
                       IF d - 1 <= 0 THEN Out(Unk, Cut(st))
                       ELSE IF Fails(K, st) THEN Out(ErrR, Call(st))
                       ELSE Out(IF Has(K, t) THEN IsM ELSE NotM, Call(st))
                  [] Head(cs) = "expand" -> Expand(K, t, d - 1, st)
       IN IF K.sc /\ Decides(o.r) THEN o
          ELSE IF ~K.sc /\ Decides(o.r)
               THEN LET rest == RunGroup(K, t, d, Tail(cs), sawUnk, o.st) IN Out(o.r, rest.st)
               ELSE RunGroup(K, t, d, Tail(cs), OrFold(K, o.r, sawUnk), o.st)

\* checkExpandSubject
Expand(K, t, d, st) ==
  IF d <= 0 THEN Out(Unk, Cut(st))
  ELSE IF Fails(K, st) THEN Out(ErrR, Call(st))
  ELSE LET st1   == Call(st)
           rows  == SetRows(K, NodeOf(t))
           found == \E i \in 1..Len(rows) : Has(K, Tup(rows[i][4][2], rows[i][4][3], rows[i][4][4], t[4]))
           trunc == Len(rows) > K.w
           kept  == IF trunc THEN SubSeq(rows, 1, K.w - 1) ELSE rows
           v0    == IF st1.v.has THEN st1.v ELSE [has |-> TRUE, s |-> {}]
           st2   == [st1 EXCEPT !.v = v0, !.cut = @ \/ trunc]
           o     == ExpandKids(K, t, d, kept, FALSE, st2)
           \* the set created here is local to this expansion's subtree
           back  == [o.st EXCEPT !.v = IF st.v.has /\ K.vm # "path" THEN o.st.v ELSE st.v]
       IN IF found /\ K.sc THEN Out(IsM, st1)
          ELSE IF found THEN Out(IsM, back)
          ELSE Out(o.r, back)

ExpandKids(K, t, d, rows, sawUnk, st) ==
  IF rows = <<>> THEN Out(OrEnd(K, sawUnk), st)
  ELSE LET n == SetNode(Head(rows)[4])
           key == VisKey(K, n)
       IN IF key \in st.v.s THEN ExpandKids(K, t, d, Tail(rows), sawUnk, st)
          ELSE LET stIn == [st EXCEPT !.v.s = @ \cup {key}]
                   o == CIA(K, Tup(n[1], n[2], n[3], t[4]), d, TRUE, stIn)
                   \* in path mode a sibling does not see what this child visited
                   stOut == IF K.vm = "path" THEN [o.st EXCEPT !.v = st.v] ELSE o.st
               IN IF K.sc /\ Decides(o.r) THEN Out(o.r, stOut)
                  ELSE IF Decides(o.r)
                       THEN LET rest == ExpandKids(K, t, d, Tail(rows), sawUnk, stOut) IN Out(o.r, rest.st)
                       ELSE ExpandKids(K, t, d, Tail(rows), OrFold(K, o.r, sawUnk), stOut)

\* checkSubjectSetRewrite
Rw(K, t, rw, d, st) ==
  IF d <= 0 THEN Out(Unk, Cut(st))
  ELSE IF rw.k = "or" THEN
         LET isCss(c) == c.k = "css"
             css == SelectSeq(rw.ch, isCss)
             rest == SelectSeq(rw.ch, LAMBDA c : ~isCss(c))
             items == (IF css = <<>> THEN <<>> ELSE <<[k |-> "shortcut", rels |-> css]>>) \o rest
         IN RunOr(K, t, items, d, FALSE, FALSE, st)
       ELSE IF rw.k = "and" THEN RunAnd(K, t, rw.ch, d, FALSE, FALSE, st)
       ELSE RunOr(K, t, <<rw>>, d, FALSE, FALSE, st)   \* AsRewrite(): one child, operator or

\* a fresh visited scope for an operand, restored afterwards (vm = "scoped")
Scoped(K, st)        == IF K.vm = "shared" THEN st ELSE [st EXCEPT !.v = NoVis]
Unscope(K, st, stIn) == IF K.vm = "shared" THEN st ELSE [st EXCEPT !.v = stIn.v]

\* or(): first error or first member wins; otherwise not-member
RunOr(K, t, items, d, sawUnk, decided, st) ==
  IF items = <<>> THEN Out(OrEnd(K, sawUnk), st)
  ELSE LET c == Head(items)
           o0 == IF c.k = "shortcut" THEN Shortcut(K, t, c.rels, d, st) ELSE Child(K, t, c, d, st)
           o == IF K.vm = "path" THEN Out(o0.r, [o0.st EXCEPT !.v = st.v]) ELSE o0
       IN IF K.sc /\ Decides(o.r) THEN o
          ELSE IF Decides(o.r)
               THEN LET rest == RunOr(K, t, Tail(items), d, sawUnk, TRUE, o.st) IN Out(o.r, rest.st)
               ELSE RunOr(K, t, Tail(items), d, OrFold(K, o.r, sawUnk), decided, o.st)

\* and(): first error or first non-member gives {err, not}; all members give member
RunAnd(K, t, ch, d, sawUnk, started, st) ==
  IF ch = <<>> THEN Out(IF ~started THEN NotM ELSE IF ~K.coll /\ sawUnk THEN Unk ELSE IsM, st)
  ELSE LET o0 == Child(K, t, Head(ch), d, Scoped(K, st))
           o == Out(o0.r, Unscope(K, o0.st, st))
           stop == o.r.e \/ (IF K.coll THEN o.r.m # "is" ELSE o.r.m = "not")
       IN IF stop
          THEN IF K.sc THEN Out(Res("not", o.r.e), o.st)
               ELSE LET rest == RunAnd(K, t, Tail(ch), d, sawUnk, TRUE, o.st) IN Out(Res("not", o.r.e), rest.st)
          ELSE RunAnd(K, t, Tail(ch), d, sawUnk \/ o.r.m = "unk", TRUE, o.st)

\* one operand of a rewrite
Child(K, t, c, d, st) ==
  \* (since the repair recorded as C15-css-cycle-unbounded the hop onto the computed relation consumes one level, as in the shortcut)
  CASE c.k = "css" -> IF d < 0 THEN Out(Unk, Cut(st)) ELSE CIA(K, Tup(t[1], t[2], c.rel, t[4]), d - 1, FALSE, st)
    [] c.k = "ttu" ->
         IF d < 0 THEN Out(Unk, Cut(st))
         ELSE IF Fails(K, st) THEN Out(ErrR, Call(st))
         ELSE TTUKids(K, t, c, d, SetRows(K, <<t[1], t[2], c.rel>>), FALSE, Call(st))
    [] c.k \in {"or", "and"} -> Rw(K, t, c, d - 1, st)
    [] c.k = "not" ->
         IF d < 0 THEN Out(Unk, Cut(st))
         ELSE LET inner == IF c.c.k \in {"or", "and"} THEN Rw(K, t, c.c, d, Scoped(K, st))
                           ELSE Child(K, t, c.c, d, Scoped(K, st))
                  r == inner.r
              IN Out(IF r.e THEN r
                     ELSE Res(CASE r.m = "is" -> "not" [] r.m = "not" -> "is" [] OTHER -> "unk", FALSE),
                     Unscope(K, inner.st, st))

\* checkTupleToSubjectSet: one group over the subject sets stored under rel
TTUKids(K, t, c, d, rows, sawUnk, st) ==
  IF rows = <<>> THEN Out(OrEnd(K, sawUnk), st)
  ELSE LET s == Head(rows)[4]
           o0 == CIA(K, Tup(s[2], s[3], c.crel, t[4]), d - 1, FALSE, st)
           o == IF K.vm = "path" THEN Out(o0.r, [o0.st EXCEPT !.v = st.v]) ELSE o0
       IN IF K.sc /\ Decides(o.r) THEN o
          ELSE IF Decides(o.r)
               THEN LET rest == TTUKids(K, t, c, d, Tail(rows), sawUnk, o.st) IN Out(o.r, rest.st)
               ELSE TTUKids(K, t, c, d, Tail(rows), OrFold(K, o.r, sawUnk), o.st)

\* the OR-of-computed-subject-sets shortcut: one SQL lookup over all the
\* relations (in strict mode only those without a rewrite), then one group
Shortcut(K, t, rels, d, st) ==
  IF Fails(K, st) THEN Out(ErrR, Call(st))
  ELSE LET st1 == Call(st)
           looked == SelectSeq(rels, LAMBDA c : ~(K.strict /\ HasRw(K, t[1], c.rel)))
           found == \E i \in 1..Len(looked) : Has(K, Tup(t[1], t[2], looked[i].rel, t[4]))
       IN IF found /\ K.sc THEN Out(IsM, st1)
          ELSE LET o == ShortKids(K, t, rels, d, FALSE, st1) IN IF found THEN Out(IsM, o.st) ELSE o
ShortKids(K, t, rels, d, sawUnk, st) ==
  IF rels = <<>> THEN Out(OrEnd(K, sawUnk), st)
  ELSE LET o0 == CIA(K, Tup(t[1], t[2], Head(rels).rel, t[4]), d - 1, TRUE, st)
           o == IF K.vm = "path" THEN Out(o0.r, [o0.st EXCEPT !.v = st.v]) ELSE o0
       IN IF K.sc /\ Decides(o.r) THEN o
          ELSE IF Decides(o.r)
               THEN LET rest == ShortKids(K, t, Tail(rels), d, sawUnk, o.st) IN Out(o.r, rest.st)
               ELSE ShortKids(K, t, Tail(rels), d, OrFold(K, o.r, sawUnk), o.st)

\* the effective depth: a request can only lower the global limit
Eff(r, g) == IF r <= 0 \/ g < r THEN g ELSE r

Engine(K, t, d) == CIA(K, t, d, FALSE, St0)

\* the engine as the code is (after the visited-scope repair)
AsIs(K)   == [K EXCEPT !.vm = "scoped", !.coll = TRUE,  !.sc = TRUE]
\* the engine as it was before the visited-scope repair
Shared(K) == [K EXCEPT !.vm = "shared", !.coll = TRUE,  !.sc = TRUE]
\* three-valued: what the engine should answer under binding limits
Ideal(K)  == [K EXCEPT !.vm = "scoped", !.coll = FALSE, !.sc = TRUE]
\* exhaustive exploration of every simple path: which limits are ever hit,
\* and how many storage calls can be issued at most
Exh(K)    == [K EXCEPT !.vm = "path",   !.coll = FALSE, !.sc = FALSE, !.fk = 0]

NotBinding(K, t, d) == ~Engine(Exh(K), t, d).st.cut
\* some path of the evaluation asks for a relation its namespace does not declare
SchemaErr(K, t, d)  == Engine(Exh(K), t, d).st.bad
MaxCalls(K, t, d)   == Engine(Exh(K), t, d).st.n
=============================================================================
