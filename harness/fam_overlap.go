package zzverif

import (
	"context"
	"sync"
	"testing"

	"github.com/ory/keto/internal/check"
	"github.com/ory/keto/internal/check/checkgroup"
	"github.com/ory/keto/internal/namespace"
	"github.com/ory/keto/internal/relationtuple"
	"github.com/ory/keto/ketoapi"
)

// Keto.tla schedules on the real engine: a check of n:s#r@u runs while the
// relationships it reads are inserted and deleted at the points the model chose
// ("after k storage reads"). Storage reads hold a gate shared, writes hold it
// exclusively, and both are recorded while they hold it, so the recorded order
// is the order in which they took effect. The recorded events are validated
// against TraceKeto.tla.

type ovWrite struct {
	At   int      `json:"at"` // storage reads of this check that completed before the write
	Kind string   `json:"kind"`
	T    []string `json:"t"`
}

type ovCase struct {
	ID    int        `json:"id"`
	Init  [][]string `json:"init"`
	Sched []ovWrite  `json:"sched"`
}

type ovIn struct {
	Cases []ovCase `json:"cases"`
}

func init() { families["overlap"] = famOverlap }

func ovTuple(t []string) *ketoapi.RelationTuple {
	rt := &ketoapi.RelationTuple{Namespace: "n", Object: t[0], Relation: "r"}
	if t[1] == "u" {
		rt.SubjectID = ptr("u")
	} else {
		rt.SubjectSet = &ketoapi.SubjectSet{Namespace: "n", Object: t[1], Relation: "r"}
	}
	return rt
}

func famOverlap(t *testing.T) {
	var in ovIn
	readJSON(*fIn, &in)
	out := newNDWriter(*fOut)
	defer out.close()
	si, sn := shard()
	reg := newRegistry(t, regOpts{nss: []*namespace.Namespace{{Name: "n"}}})
	deps, _ := newEngineDeps(reg)
	eng := check.NewEngine(deps)
	bg := context.Background()
	ids, err := reg.Persister().MapStringsToUUIDs(bg, "s", "a", "b")
	if err != nil {
		t.Fatal(err)
	}
	nameOf := map[string]string{ids[0].String(): "s", ids[1].String(): "a", ids[2].String(): "b"}

	for ci, c := range in.Cases {
		if ci%sn != si {
			continue
		}
		resetTuples(t, reg)
		for _, tp := range c.Init {
			var its []*relationtuple.RelationTuple
			rt := ovTuple(tp)
			retry(t, "map", func() (err error) { its, err = reg.Mapper().FromTuple(bg, rt); return })
			retry(t, "write", func() error { return reg.RelationTupleManager().WriteRelationTuples(bg, its...) })
		}
		var (
			emu    sync.Mutex
			events []map[string]any
			closed bool
			rw     sync.RWMutex
			next   int // next scheduled write
		)
		emit := func(e map[string]any) {
			emu.Lock()
			if !closed {
				events = append(events, e)
			}
			emu.Unlock()
		}
		emit(map[string]any{"ev": "start", "store": c.Init, "case": c.ID})
		rs := &runState{rw: &rw}
		rs.pre = func(k int) {
			// the writes scheduled after k-1 reads happen before the k-th read is let through
			rw.Lock()
			defer rw.Unlock()
			emu.Lock()
			done := closed
			emu.Unlock()
			for !done && next < len(c.Sched) && c.Sched[next].At <= k-1 {
				w := c.Sched[next]
				next++
				var its []*relationtuple.RelationTuple
				rt := ovTuple(w.T)
				retry(t, "map", func() (err error) { its, err = reg.Mapper().FromTuple(bg, rt); return })
				if w.Kind == "ins" {
					retry(t, "ins", func() error { return reg.RelationTupleManager().WriteRelationTuples(bg, its...) })
				} else {
					retry(t, "del", func() error { return reg.RelationTupleManager().DeleteRelationTuples(bg, its...) })
				}
				emit(map[string]any{"ev": "write", "kind": w.Kind, "t": w.T})
			}
		}
		rs.obs = func(kind string, arg any, res any, err error) {
			if err != nil {
				emit(map[string]any{"ev": "readerr", "kind": kind, "msg": err.Error()})
				return
			}
			switch kind {
			case "list", "rewrite":
				// (not issued in the rewrite-free configuration)
			case "exists":
				emit(map[string]any{"ev": "direct", "res": res.(bool)})
			case "expand":
				tp := arg.(*relationtuple.RelationTuple)
				rows := res.([]*relationtuple.TraversalResult)
				kids := []string{}
				found := false
				for _, r := range rows {
					kids = append(kids, nameOf[r.To.Object.String()])
					found = found || r.Found
				}
				emit(map[string]any{"ev": "expand", "n": nameOf[tp.Object.String()], "kids": kids, "found": found})
			}
		}
		ctx, cancel := context.WithCancel(withRunState(bg, rs))
		q := internalTuple(t, reg, ovTuple([]string{"s", "u"}))
		r := eng.CheckRelationTuple(ctx, q, 0)
		if r.Err != nil {
			emit(map[string]any{"ev": "answer", "error": r.Err.Error(), "allowed": false})
		} else {
			emit(map[string]any{"ev": "answer", "allowed": r.Membership == checkgroup.IsMember})
		}
		emu.Lock()
		closed = true
		evs := events
		emu.Unlock()
		cancel()
		out.write(map[string]any{"id": c.ID, "events": evs, "applied": next})
	}
}
