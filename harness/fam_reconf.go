package zzverif

import (
	"context"
	"os"
	"path/filepath"
	"time"

	"encoding/json"
	"fmt"
	"github.com/ory/keto/internal/namespace/ast"
	"net/url"
	"sort"
	"strings"
	"testing"

	"github.com/ory/keto/internal/driver"
	"github.com/ory/keto/internal/driver/config"
	"github.com/ory/keto/internal/namespace"
	"github.com/ory/keto/ketoapi"
	rts "github.com/ory/keto/proto/ory/keto/relation_tuples/v1alpha2"
)

// Reconf.tla histories: configuration changes (max depth, max width, namespace
// set) interleaved with requests on ONE long-lived server. Every reply is
// compared with the reply of a server that was started with the configuration
// now in force (one per distinct configuration, kept for the whole shard).

type reconfStep struct {
	Op    string   `json:"op"` // set | req
	Req   string   `json:"req"`
	Key   string   `json:"key"`
	Depth int      `json:"depth"` // the configuration in force after the step
	Width int      `json:"width"`
	Ns    []string `json:"ns"`
	// Content of namespace n: "plain" (no relations declared) or "rw" (r, and r2 := r2 or r)
	Content string `json:"content"`
}

type reconfIn struct {
	Histories []struct {
		Run   int          `json:"run"`
		Steps []reconfStep `json:"steps"`
		// File: the long-lived server is configured from a watched configuration file and every change is made by
		// replacing that file (the way a deployment is reconfigured); otherwise through Config.Set
		File bool `json:"file"`
		// Opl (with File): the namespaces come from a watched OPL file named in the configuration file; changes to
		// the namespace list and to the content of n rewrite that OPL file, changes to the limits the configuration file
		Opl bool `json:"opl"`
	} `json:"histories"`
}

func reconfReplace(t *testing.T, path, content string) {
	tmp := path + ".tmp"
	if err := os.WriteFile(tmp, []byte(content), 0o600); err != nil {
		t.Fatal(err)
	}
	if err := os.Rename(tmp, path); err != nil {
		t.Fatal(err)
	}
}

// reconfOplPath is the OPL file next to the configuration file.
func reconfOplPath(cfgFile string) string {
	return filepath.Join(filepath.Dir(cfgFile), "namespaces.ts")
}

// reconfOpl is reconfNamespaces in the permission language.
func reconfOpl(ns []string, content string) string {
	var b strings.Builder
	b.WriteString("import { Namespace, Context } from \"@ory/keto-namespace-types\"\n")
	s := append([]string{}, ns...)
	sort.Strings(s)
	for _, n := range s {
		if n == "n" && content == "rw" {
			fmt.Fprintf(&b, "class n implements Namespace {\n  related: { r: n[] }\n  permits = { r2: (ctx: Context): boolean => this.related.r.includes(ctx.subject) }\n}\n")
		} else {
			fmt.Fprintf(&b, "class %s implements Namespace {}\n", n)
		}
	}
	return b.String()
}

func reconfWriteFile(t *testing.T, path string, depth, width int, ns []string, opl bool, content string) {
	var b strings.Builder
	fmt.Fprintf(&b, "limit:\n  max_read_depth: %d\n  max_read_width: %d\nnamespaces:\n", depth, width)
	if opl {
		cur, _ := os.ReadFile(reconfOplPath(path))
		if want := reconfOpl(ns, content); string(cur) != want {
			reconfReplace(t, reconfOplPath(path), want)
		}
		fmt.Fprintf(&b, "  location: file://%s\n", reconfOplPath(path))
	} else {
		s := append([]string{}, ns...)
		sort.Strings(s)
		for _, n := range s {
			fmt.Fprintf(&b, "  - name: %s\n", n)
		}
	}
	if cur, _ := os.ReadFile(path); string(cur) != b.String() {
		reconfReplace(t, path, b.String())
	}
}

// reconfFileServer starts the long-lived server from a watched configuration file.
func reconfFileServer(t *testing.T, path string, opl bool) *storeEnv {
	reconfWriteFile(t, path, 8, 100, []string{"n", "m"}, opl, "plain")
	reg := driver.VerifNewFileRegistry(t, path)
	writeOrderedRaw(t, reg, reconfData())
	return envFor(t, reg)
}

// reconfAwait waits until the configuration store of the server shows the values now in the file.
// (The polling runs in its own goroutine: a namespace store that no longer answers must not stop the harness.)
func reconfAwait(t *testing.T, e *storeEnv, s reconfStep) bool {
	done := make(chan bool, 1)
	stop := make(chan struct{})
	go func() { done <- reconfAwaitIn(e, s, stop) }()
	select {
	case ok := <-done:
		return ok
	case <-time.After(20 * time.Second):
		close(stop)
		return false
	}
}

func reconfAwaitIn(e *storeEnv, s reconfStep, stop chan struct{}) bool {
	want := append([]string{}, s.Ns...)
	sort.Strings(want)
	nrel := map[string]int{"plain": 0, "rw": 2}[s.Content]
	deadline := time.Now().Add(15 * time.Second)
	for time.Now().Before(deadline) {
		select {
		case <-stop:
			return false
		default:
		}
		c := e.reg.Config(context.Background())
		src := c.Source()
		var got []string
		if nm, err := c.NamespaceManager(); err == nil {
			if nss, err := nm.Namespaces(context.Background()); err == nil {
				for _, n := range nss {
					got = append(got, n.Name)
					if n.Name == "n" && len(n.Relations) != nrel {
						got = append(got, "(other content)")
					}
				}
			}
		}
		sort.Strings(got)
		if src.Int(config.KeyLimitMaxReadDepth) == s.Depth && src.Int(config.KeyLimitMaxReadWidth) == s.Width && strings.Join(got, ",") == strings.Join(want, ",") {
			return true
		}
		time.Sleep(5 * time.Millisecond)
	}
	return false
}

func init() { families["reconf"] = famReconf }

func reconfNamespaces(ns []string, content string) []*namespace.Namespace {
	var out []*namespace.Namespace
	s := append([]string{}, ns...)
	sort.Strings(s)
	for _, n := range s {
		x := &namespace.Namespace{Name: n}
		if n == "n" && content == "rw" {
			x.Relations = []ast.Relation{{Name: "r"},
				{Name: "r2", SubjectSetRewrite: &ast.SubjectSetRewrite{Children: ast.Children{&ast.ComputedSubjectSet{Relation: "r"}}}}}
		}
		out = append(out, x)
	}
	return out
}

func reconfData() []*ketoapi.RelationTuple {
	ss := func(o string) *ketoapi.SubjectSet {
		return &ketoapi.SubjectSet{Namespace: "n", Object: o, Relation: "r"}
	}
	t := func(ns, o string, id string, set *ketoapi.SubjectSet) *ketoapi.RelationTuple {
		rt := &ketoapi.RelationTuple{Namespace: ns, Object: o, Relation: "r", SubjectSet: set}
		if set == nil {
			rt.SubjectID = ptr(id)
		}
		return rt
	}
	return []*ketoapi.RelationTuple{
		// a chain: the subject is four hops below o1
		t("n", "o1", "", ss("o2")), t("n", "o2", "", ss("o3")), t("n", "o3", "", ss("o4")), t("n", "o4", "u", nil),
		// a wide node: three subject sets, the subject two hops below the last one
		t("n", "w", "", ss("g1")), t("n", "w", "", ss("g2")), t("n", "w", "", ss("g3")), t("n", "g3", "", ss("h")), t("n", "h", "u", nil),
		// another namespace
		t("m", "x", "u", nil),
	}
}

func reconfServer(t *testing.T, depth, width int, ns []string, content string) *storeEnv {
	reg := driver.NewSqliteTestRegistry(t, false, driver.WithLogLevel("panic"), driver.WithNamespaces(reconfNamespaces(ns, content)),
		driver.WithConfig(config.KeyLimitMaxReadDepth, depth), driver.WithConfig(config.KeyLimitMaxReadWidth, width))
	writeOrderedRaw(t, reg, reconfData())
	return envFor(t, reg)
}

// reconfGrace: every request carries a deadline of reconfDeadline; one that has not returned reconfGrace after it
// was sent is recorded as a hang (the reply "HANG ..." differs from every reply of the reference server).
const (
	reconfDeadline = 10 * time.Second
	reconfGrace    = 25 * time.Second
)

func (e *storeEnv) reconfDoT(req string) string {
	ch := make(chan string, 1)
	go func() { ch <- e.reconfDo(req) }()
	select {
	case s := <-ch:
		return s
	case <-time.After(reconfGrace):
		return fmt.Sprintf("HANG: no reply %v after the request was sent with a deadline of %v", reconfGrace, reconfDeadline)
	}
}

func (e *storeEnv) reconfDo(req string) string {
	defer func() { recover() }()
	ctx, cancel := context.WithTimeout(e.ctx("A"), reconfDeadline)
	defer cancel()
	depthOf := func() string {
		if i := strings.LastIndex(req, "_d"); i >= 0 && req[i+2:] != "0" {
			return req[i+2:]
		}
		return ""
	}
	chain := url.Values{"namespace": {"n"}, "object": {"o1"}, "relation": {"r"}, "subject_id": {"u"}}
	switch {
	case strings.HasPrefix(req, "check_chain"), req == "check_wide", req == "check_m", req == "check_rw":
		q := chain
		if req == "check_rw" {
			q = url.Values{"namespace": {"n"}, "object": {"o4"}, "relation": {"r2"}, "subject_id": {"u"}}
		}
		if req == "check_wide" {
			q = url.Values{"namespace": {"n"}, "object": {"w"}, "relation": {"r"}, "subject_id": {"u"}}
		} else if req == "check_m" {
			q = url.Values{"namespace": {"m"}, "object": {"x"}, "relation": {"r"}, "subject_id": {"u"}}
		}
		if d := depthOf(); d != "" {
			q.Set("max-depth", d)
		}
		code, body := e.doCtx(ctx, e.rr, "GET", "/relation-tuples/check/openapi?"+q.Encode(), nil)
		return fmt.Sprintf("%d %s", code, body)
	case strings.HasPrefix(req, "batch_chain"):
		b, _ := json.Marshal(map[string]any{"tuples": []any{
			map[string]any{"namespace": "n", "object": "o1", "relation": "r", "subject_id": "u"},
			map[string]any{"namespace": "m", "object": "x", "relation": "r", "subject_id": "u"}}})
		target := "/relation-tuples/batch/check"
		if d := depthOf(); d != "" {
			target += "?max-depth=" + d
		}
		code, body := e.doCtx(ctx, e.rr, "POST", target, b)
		return fmt.Sprintf("%d %s", code, body)
	case strings.HasPrefix(req, "expand"):
		q := url.Values{"namespace": {"n"}, "object": {"o1"}, "relation": {"r"}}
		if d := depthOf(); d != "" {
			q.Set("max-depth", d)
		}
		code, body := e.doCtx(ctx, e.rr, "GET", "/relation-tuples/expand?"+q.Encode(), nil)
		return fmt.Sprintf("%d %s", code, body)
	case req == "grpc_check_chain_d0":
		resp, err := e.ch.Check(ctx, &rts.CheckRequest{Tuple: &rts.RelationTuple{Namespace: "n", Object: "o1", Relation: "r", Subject: rts.NewSubjectID("u")}})
		if err != nil {
			return "err " + err.Error()
		}
		return fmt.Sprint(resp.Allowed)
	case req == "grpc_expand_d0":
		resp, err := e.eh.Expand(ctx, &rts.ExpandRequest{Subject: rts.NewSubjectSet("n", "o1", "r")})
		if err != nil {
			return "err " + err.Error()
		}
		b, _ := json.Marshal(fromProtoTree(resp.Tree))
		return string(b)
	case req == "list_n", req == "list_m":
		code, body := e.doCtx(ctx, e.rr, "GET", "/relation-tuples?namespace="+req[5:], nil)
		var resp ketoapi.GetResponse
		json.Unmarshal(body, &resp)
		var ts []string
		for _, t := range resp.RelationTuples {
			ts = append(ts, t.String())
		}
		sort.Strings(ts)
		return fmt.Sprintf("%d %s", code, strings.Join(ts, ";"))
	}
	return "?"
}

func famReconf(t *testing.T) {
	var in reconfIn
	readJSON(*fIn, &in)
	out := newNDWriter(*fOut)
	defer out.close()
	si, sn := shard()
	fresh := map[string]*storeEnv{}
	top := t // servers kept for the whole shard must not be closed by the clean-up of one history's subtest
	keyOf := func(s reconfStep) string {
		ns := append([]string{}, s.Ns...)
		sort.Strings(ns)
		return fmt.Sprintf("%d/%d/%s/%s", s.Depth, s.Width, strings.Join(ns, ","), s.Content)
	}
	for hi, h := range in.Histories {
		if hi%sn != si {
			continue
		}
		t.Run(fmt.Sprintf("h%d", h.Run), func(t *testing.T) {
			var live *storeEnv
			cfgFile := ""
			if h.File {
				dir, err := filepath.EvalSymlinks(t.TempDir())
				if err != nil {
					t.Fatal(err)
				}
				cfgFile = filepath.Join(dir, "keto.yaml")
				live = reconfFileServer(t, cfgFile, h.Opl)
			} else {
				live = reconfServer(t, 8, 100, []string{"n", "m"}, "plain")
			}
			bg := context.Background()
			var diffs []map[string]any
			nreq, afterChange := 0, 0
			changed := false
			for si, s := range h.Steps {
				if s.Op == "set" && h.File {
					reconfWriteFile(t, cfgFile, s.Depth, s.Width, s.Ns, h.Opl, s.Content)
					if !reconfAwait(t, live, s) {
						// not picked up: inconclusive, unless the server has stopped answering requests at all
						if got := live.reconfDoT("check_chain_d0"); strings.HasPrefix(got, "HANG") {
							diffs = append(diffs, map[string]any{"step": si, "request": "check_chain_d0", "config_in_force": "(the change of this step was not picked up within 15 s)",
								"long_lived_server": got, "server_started_with_this_config": "(any reply)"})
							out.write(map[string]any{"h": hi, "requests": nreq + 1, "after_change": afterChange + 1, "diffs": diffs, "file": h.File, "opl": h.Opl})
							return
						}
						out.write(map[string]any{"h": hi, "noreload": true, "step": si})
						return
					}
					changed = true
					continue
				}
				if s.Op == "set" {
					var err error
					switch s.Key {
					case "depth":
						err = live.reg.Config(bg).Set(config.KeyLimitMaxReadDepth, s.Depth)
					case "width":
						err = live.reg.Config(bg).Set(config.KeyLimitMaxReadWidth, s.Width)
					default: // "ns" and "content": the namespace list is one setting
						err = live.reg.Config(bg).Set(config.KeyNamespaces, reconfNamespaces(s.Ns, s.Content))
					}
					if err != nil {
						t.Fatalf("set %s: %v", s.Key, err)
					}
					changed = true
					continue
				}
				k := keyOf(s)
				f, ok := fresh[k]
				if !ok {
					f = reconfServer(top, s.Depth, s.Width, s.Ns, s.Content)
					fresh[k] = f
				}
				got, want := live.reconfDoT(s.Req), f.reconfDoT(s.Req)
				nreq++
				if changed {
					afterChange++
				}
				if got != want {
					diffs = append(diffs, map[string]any{"step": si, "request": s.Req, "config_in_force": k,
						"long_lived_server": trunc(got, 600), "server_started_with_this_config": trunc(want, 600)})
					if strings.HasPrefix(got, "HANG") {
						break
					}
				}
			}
			out.write(map[string]any{"h": hi, "requests": nreq, "after_change": afterChange, "diffs": diffs, "file": h.File, "opl": h.Opl})
		})
	}
}
