"""C09: Expand.tla cases replayed on the expand engine, REST and gRPC"""
import json
import lib
from lib import *

TIERS = {"quick": dict(dmax=5, ords=2, sample=3000), "thorough": dict(dmax=6, ords=4, sample=0)}


def nodes(t):
    if t["t"] == "nil":
        return
    yield t
    for c in t.get("ch") or []:
        yield from nodes(c)


def height(t):
    if t["t"] == "nil":
        return 0
    return 1 + max([height(c) for c in (t.get("ch") or [])] or [0])


def norm(t):
    if t is None:
        return None
    if t["t"] == "nil":
        return {"t": "nil"}
    return {"t": t["t"], "s": t["s"], "ch": [norm(c) for c in (t.get("ch") or [])]}


def c09(tier):
    ck = Check("C09", tier)
    p = TIERS[tier]
    binary = build_harness()
    cfg = write_cfg(['Mode = "cases"', "Dmax = %d" % p["dmax"], "NumOrds = %d" % p["ords"], "Emit = TRUE"], invariants=["DesignHolds"])
    r = tlc("Expand", "e.cfg", files={"e.cfg": cfg})
    ck.add_tlc(r)
    if r.violation:
        ck.violation("Expand.tla: " + r.violation, {"tlc": r.raw_tail[-3000:]})
    cases = r.lines
    if p["sample"] and len(cases) > p["sample"]:
        import random
        rnd = random.Random(seed())
        cases = rnd.sample(cases, p["sample"])
    # nodes with more children than the listing page (100): every stored child must appear exactly once
    wide = [{"tuples": [], "d": d, "wn": wn, "nch": wn + 1, "nleaves": wn + (1 if d == 2 else 101)} for wn in (99, 100, 101, 201) for d in (2, 3)]
    # relationships that point into a namespace which is then removed from the configuration (they stay stored): the reply is an
    # error, or a tree in which every expanded node still has one child per stored relationship - never a tree without the edge
    def G(o, s):
        return ["n", o, "r", s]
    gone_tuples = [G("s", ["set", "gone", "g", "r"]), G("s", ["id", "u1"]), G("s", ["set", "n", "a", "r"]),
                   G("a", ["set", "gone", "h", "r"]), G("a", ["id", "u2"]), ["gone", "g", "r", ["id", "u3"]], ["gone", "h", "r", ["id", "u4"]]]
    gone = [{"tuples": gone_tuples, "d": d, "wn": 0, "gone": True} for d in (2, 3, 4)]
    allc = cases + wide + gone
    inp = {"cases": [{"id": i, "tuples": c["tuples"], "d": c["d"], "wn": c["wn"], "faults": (i % 5 == 0 and c["d"] >= 2 and c["wn"] in (0, 101) and not c.get("gone")), "gone": bool(c.get("gone"))}
                     for i, c in enumerate(allc)], "gdepth": 12}
    nfaults = 0
    recs = {x["id"]: x for x in run_harness(binary, "expand", inp)}
    known = {f["id"]: f for f in known_findings("C09")}
    for i, c in enumerate(allc):
        ob = recs.get(i)
        if ob is None:
            raise Inconclusive("case %d not replayed" % i)
        ck.evaluations += 1
        stored = [t for t in c["tuples"] if t]
        cid = {"stored_in_order": stored, "depth": c["d"], "wide": c["wn"], "root": ["set", "n", "s", "r"]}
        for f in ob.get("faults") or []:
            ck.evaluations += 1
            nfaults += 1
            if f["status"] == 200 and not f["same"]:
                ck.violation("an expand during which a storage statement failed (%s error on statement %d of %d) answered 200 with another tree than without the failure"
                             % (f["flavour"], f["k"], ob["nstmts"]), dict(cid, fault=f))
        if c.get("gone"):
            answered = 0
            for name in ("engine", "rest", "grpc"):
                tr = ob.get(name)
                if tr is None or tr["t"] == "nil":
                    continue      # an error reply (or nothing): nothing wrong is shown
                answered += 1
                for nd in nodes(tr):
                    if not nd.get("ch"):
                        continue
                    want = sorted(json.dumps(t[3]) for t in stored if t[1] == nd["s"][2] and t[0] == nd["s"][1])
                    got = sorted(json.dumps(ch["s"]) for ch in nd["ch"])
                    if got != want:
                        ck.violation("after a namespace was removed from the configuration, expand (%s) answers with a tree in which a stored relationship of an expanded node is missing" % name,
                                     dict(cid, node=nd["s"], children=got, stored_subjects=want, tree=tr))
            ck.nontrivial.add(("gone", c["d"], answered))
            continue
        if "engine_err" in ob:
            ck.violation("expand failed: " + ob["engine_err"], cid)
            continue
        tr = ob["engine"]
        if c["wn"]:
            # wide nodes: every child across the page boundary is present exactly once
            nch = len(tr.get("ch") or []) if tr["t"] != "nil" else 0
            leaves = {json.dumps(n["s"]) for n in nodes(tr) if not n.get("ch")}
            if nch != c["nch"] or len(leaves) != c["nleaves"]:
                ck.violation("a node with more children than a page lost or duplicated children",
                             dict(cid, expected_children=c["nch"], observed_children=nch, expected_leaves=c["nleaves"], observed_leaves=len(leaves)))
            ck.nontrivial.add(("wide", c["wn"], c["d"]))
        else:
            tuples = {json.dumps([t[1], t[3]]) for t in stored}
            edges_ok = all(json.dumps([n["s"][2], ch["s"]]) in tuples for n in nodes(tr) for ch in (n.get("ch") or []))
            expanded = [json.dumps(n["s"]) for n in nodes(tr) if n.get("ch")]
            once_ok = len(expanded) == len(set(expanded))
            depth_ok = height(tr) <= c["d"]
            present = {json.dumps(n["s"]) for n in nodes(tr)}
            leaf_users = {json.dumps(n["s"]) for n in nodes(tr) if n["s"][0] == "id"}
            sound_ok = leaf_users <= {json.dumps(x) for x in c["reachall"]}
            missing = [x for x in c["reachd"] if json.dumps(x) not in present]
            if not edges_ok:
                ck.violation("the tree has an edge that is not a stored relationship", dict(cid, tree=tr))
            if not once_ok:
                ck.violation("a subject set is expanded more than once", dict(cid, tree=tr))
            if not depth_ok:
                ck.violation("the tree is deeper than max-depth", dict(cid, tree=tr, height=height(tr)))
            if not sound_ok:
                ck.violation("the tree contains a subject that is not reachable", dict(cid, tree=tr))
            if missing:
                same_as_model = norm(tr) == norm(c["tree"])
                if "C09-dfs-visited-incomplete" in known and same_as_model and not c["complete"]:
                    ck.known("C09-dfs-visited-incomplete", "a subject reachable within max-depth is missing from the tree (set first reached at exhausted depth)")
                else:
                    ck.violation("a subject reachable within max-depth is missing from the tree", dict(cid, missing=missing, tree=tr, model_tree=c["tree"]))
            if len(stored) >= 3 and c["d"] >= 3:
                ck.nontrivial.add((json.dumps(stored), c["d"]))
            # expand leaves equal check decisions when the depth is not binding
            if c["d"] == p["dmax"] and c["complete"]:
                for u, allowed in (ob.get("checks") or {}).items():
                    in_tree = json.dumps(["id", u]) in leaf_users
                    in_reach = ["id", u] in c["reachall"]
                    if allowed is not in_reach:
                        ck.violation("check disagrees with reachability for subject %s" % u, dict(cid, check=allowed, reachable=in_reach))
                    elif in_tree != bool(allowed) and len(c["reachall"]) and not missing:
                        # deeper than the tree's depth: only compare when the whole reachable set fits the depth
                        if all(json.dumps(x) in present for x in c["reachall"]):
                            ck.violation("expand leaves and check disagree for subject %s" % u, dict(cid, check=allowed, in_tree=in_tree))
            if len(ck.samples) < 3 and c["d"] >= 3 and len(stored) >= 5:
                ck.sample(dict(cid, tree=tr))
        # transports agree with the engine
        if tr["t"] == "nil":
            pass  # how an empty expansion is reported is not part of the property
        else:
            if ob.get("rest") is None or norm(ob["rest"]) != norm(tr):
                ck.violation("REST expand differs from the engine's tree", dict(cid, rest_status=ob["rest_status"], rest=ob.get("rest"), engine=tr))
            if ob.get("grpc") is None or norm(ob["grpc"]) != norm(tr):
                ck.violation("gRPC expand differs from the engine's tree", dict(cid, grpc_status=ob["grpc_status"], grpc=ob.get("grpc"), engine=tr))
            elif ob.get("grpc_client") is None or norm(ob["grpc_client"]) != norm(tr):
                ck.violation("the gRPC expand reply decoded with ketoapi.TreeFromProto differs from the engine's tree",
                             dict(cid, decoded=ob.get("grpc_client"), error=ob.get("grpc_client_err"), engine=tr))
    for f in known.values():
        if f["id"] not in ck.known_hits and not ck.violations:
            raise Inconclusive("known finding %s did not reproduce: remove it from known_findings.json" % f["id"])
    ck.extra["cases"] = len(allc)
    ck.extra["expands_with_a_failing_statement"] = nfaults
    ck.exhaustive = not p["sample"]
    import p_reconf
    p_reconf.reconf(ck, binary, tier, "C09")
    # expands of ONE subject set with different max-depth values in flight together: each must get the tree it gets alone
    import p_check
    from p_api import QUERIES, STATES
    dck = Check("C09", tier)
    defs, _ = p_check.oracle("quick", ["rw"], dck, sample=1, ords=1)
    ck.states += dck.states; ck.transitions += dck.transitions
    rounds = 32 if tier == "quick" else 256
    cin = {"def": defs["rw"], "states": [s for s in STATES if s], "queries": [q for q, c in QUERIES if c == "valid"], "rounds": rounds, "par": 24, "only": "expand"}
    crecs = [x for x in run_harness(binary, "conc", cin, shards=8) if "round" in x]
    if len(crecs) < rounds // 2:
        raise Inconclusive("only %d of %d concurrent expand rounds ran" % (len(crecs), rounds // 2))
    for x in crecs:
        ck.evaluations += x["requests"]
        for d in x["diffs"] or []:
            ck.violation("an expand answered differently when expands of the same subject set with other max-depth values were in flight", dict(d, round=x["round"]))
    ck.extra["concurrent_expand_rounds"] = len(crecs)
    ck.rule = ("all subsets of a 10-tuple universe (chain, diamond, cycles, self-loop, duplicate) x storage orders x depths, plus nodes with 99..201 children; "
               "the real tree is checked against the property operators' inputs printed by TLC (stored tuples, reachable-within-depth, reachable); "
               "non-trivial: >= 3 stored tuples and depth >= 3")
    ck.assumptions = ["sqlite in-memory backend only", "storage order imposed through shard_id"]
    ck.finish()
