---------------------------- MODULE Checkgroup ----------------------------
(***************************************************************************)
(* The channel protocol of internal/check/checkgroup/concurrent_checkgroup *)
(* transcribed statement by statement.                                     *)
(*                                                                         *)
(* Processes: the consumer goroutine, one caller (a program of Add calls   *)
(* followed by Result() or by invoking CheckFunc() with its own context),  *)
(* the sub-checks the consumer starts, the drainer (receiveRemaining), the *)
(* cancellation of the parent context and of the invoker's context.        *)
(*                                                                         *)
(* Channels: addCheckCh and finalizeCh are unbuffered (a send and the      *)
(* matching receive are one joint step), resultCh and reserveCheckCh have  *)
(* capacity 1, doneCh is a closed flag.  A Go select is a nondeterministic *)
(* choice among its ready cases.                                           *)
(***************************************************************************)
EXTENDS Integers, Sequences, FiniteSets, TLC

CONSTANTS NAdds,        \* number of Add calls the caller makes
          UseCheckFunc  \* TRUE: the caller finishes through CheckFunc()(ctx, ch); FALSE: through Result()
Subs == 1..NAdds
Outcomes == {"is", "not", "unk", "err", "wait"}   \* "wait": blocks until its context is cancelled, then reports an error

VARIABLES
  cpc,             \* consumer: "start" | "loop" | "exited"
  total, finished, finalizing, result,
  reserve,         \* tokens in reserveCheckCh (0 or 1)
  resbuf,          \* contents of resultCh (capacity 1)
  doneClosed,      \* doneCh is closed
  subCancelled,    \* g.cancel() was called (subcheckCtx)
  parentCancelled, \* g.ctx was cancelled
  invCancelled,    \* the context passed to the CheckFunc was cancelled
  sub,             \* sub[i]: "idle" | "running" | "finished"
  subOut,          \* chosen outcome of sub i
  kpc,             \* caller: <<"add", i, "reserve"|"send">> | <<"finalize">> | <<"wait">> | <<"waitcancel">> | <<"returned">>
  delivered,       \* what the caller finally got: "none" or the result kind
  drained, drainTarget
vars == <<cpc, total, finished, finalizing, result, reserve, resbuf, doneClosed, subCancelled, parentCancelled,
          invCancelled, sub, subOut, kpc, delivered, drained, drainTarget>>

Init ==
  /\ cpc = "start" /\ total = 0 /\ finished = 0 /\ finalizing = FALSE /\ result = "none"
  /\ reserve = 0 /\ resbuf = <<>> /\ doneClosed = FALSE /\ subCancelled = FALSE
  /\ parentCancelled = FALSE /\ invCancelled = FALSE
  /\ sub = [i \in Subs |-> "idle"] /\ subOut = [i \in Subs |-> "none"]
  /\ kpc = IF NAdds > 0 THEN <<"add", 1, "reserve">> ELSE <<"finalize">>
  /\ delivered = "none" /\ drained = 0 /\ drainTarget = -1

\* subcheckCtx is a child of g.ctx
SubCtxDone == subCancelled \/ parentCancelled

NextAdd(i) == IF i < NAdds THEN <<"add", i + 1, "reserve">> ELSE <<"finalize">>

(***************************** consumer *******************************)
ConsumerStart ==
  /\ cpc = "start" /\ cpc' = "loop" /\ reserve' = 1
  /\ UNCHANGED <<total, finished, finalizing, result, resbuf, doneClosed, subCancelled, parentCancelled,
                 invCancelled, sub, subOut, kpc, delivered, drained, drainTarget>>

\* the deferred statements of the consumer: receiveRemaining, close(doneCh), g.cancel()
Exit(r, tot, fin) ==
  /\ cpc' = "exited" /\ result' = r /\ doneClosed' = TRUE /\ subCancelled' = TRUE
  /\ drainTarget' = tot - fin

\* case check := <-g.addCheckCh  (joint with the caller's send)
RecvAdd ==
  /\ cpc = "loop" /\ kpc[1] = "add" /\ kpc[3] = "send"
  /\ LET i == kpc[2] IN
       /\ IF finalizing THEN UNCHANGED <<total, sub>>
          ELSE total' = total + 1 /\ sub' = [sub EXCEPT ![i] = "running"]
       /\ kpc' = NextAdd(i)
  /\ UNCHANGED <<cpc, finished, finalizing, result, reserve, resbuf, doneClosed, subCancelled, parentCancelled,
                 invCancelled, subOut, delivered, drained, drainTarget>>

\* case <-g.finalizeCh  (joint with tryFinalize's send)
RecvFinalize ==
  /\ cpc = "loop" /\ kpc = <<"finalize">>
  /\ kpc' = <<"wait">>
  /\ IF finalizing
     THEN UNCHANGED <<cpc, finalizing, result, doneClosed, subCancelled, drainTarget>>
     ELSE /\ finalizing' = TRUE
          /\ IF finished = total
             THEN Exit("not", total, finished)
             ELSE UNCHANGED <<cpc, result, doneClosed, subCancelled, drainTarget>>
  /\ UNCHANGED <<total, finished, reserve, resbuf, parentCancelled, invCancelled, sub, subOut, delivered, drained>>

\* case result := <-resultCh
RecvResult ==
  /\ cpc = "loop" /\ Len(resbuf) > 0
  /\ LET o == Head(resbuf) IN
       /\ resbuf' = Tail(resbuf)
       /\ finished' = finished + 1
       /\ IF o \in {"is", "err"}
          THEN Exit(o, total, finished + 1) /\ UNCHANGED <<reserve>>
          ELSE IF finalizing /\ finished + 1 = total
               THEN Exit("not", total, finished + 1) /\ UNCHANGED <<reserve>>
               ELSE /\ reserve' = 1      \* select { case g.reserveCheckCh <- struct{}{}: default: }
                    /\ UNCHANGED <<cpc, result, doneClosed, subCancelled, drainTarget>>
  /\ UNCHANGED <<total, finalizing, parentCancelled, invCancelled, sub, subOut, kpc, delivered, drained>>

\* case <-g.subcheckCtx.Done(): g.result = Result{Err: g.ctx.Err()}
\* "nilerr" is the Result{Err: nil} produced when only g.cancel() fired
RecvCtxDone ==
  /\ cpc = "loop" /\ SubCtxDone
  /\ Exit(IF parentCancelled THEN "err" ELSE "nilerr", total, finished)
  /\ UNCHANGED <<total, finished, finalizing, reserve, resbuf, parentCancelled, invCancelled, sub, subOut, kpc,
                 delivered, drained>>

(****************************** caller ********************************)
\* Add: select { case <-reserveCheckCh: ... case <-subcheckCtx.Done(): }
AddReserve ==
  /\ kpc[1] = "add" /\ kpc[3] = "reserve"
  /\ \/ /\ reserve = 1 /\ reserve' = 0 /\ kpc' = <<"add", kpc[2], "send">>
     \/ /\ SubCtxDone /\ reserve' = reserve /\ kpc' = NextAdd(kpc[2])
  /\ UNCHANGED <<cpc, total, finished, finalizing, result, resbuf, doneClosed, subCancelled, parentCancelled,
                 invCancelled, sub, subOut, delivered, drained, drainTarget>>
\* inner select: the send on addCheckCh is abandoned when the context is done
AddAbort ==
  /\ kpc[1] = "add" /\ kpc[3] = "send" /\ SubCtxDone
  /\ kpc' = NextAdd(kpc[2])
  /\ UNCHANGED <<cpc, total, finished, finalizing, result, reserve, resbuf, doneClosed, subCancelled,
                 parentCancelled, invCancelled, sub, subOut, delivered, drained, drainTarget>>
\* tryFinalize: select { case finalizeCh <- : case <-doneCh: }  (the send is RecvFinalize)
FinalizeDone ==
  /\ kpc = <<"finalize">> /\ doneClosed /\ kpc' = <<"wait">>
  /\ UNCHANGED <<cpc, total, finished, finalizing, result, reserve, resbuf, doneClosed, subCancelled,
                 parentCancelled, invCancelled, sub, subOut, delivered, drained, drainTarget>>
\* Result(): <-doneCh ; CheckFunc: select { case <-doneCh: ... case <-ctx.Done(): g.cancel(); <-doneCh }
WaitDone ==
  /\ kpc = <<"wait">> /\ doneClosed
  /\ kpc' = <<"returned">> /\ delivered' = result
  /\ UNCHANGED <<cpc, total, finished, finalizing, result, reserve, resbuf, doneClosed, subCancelled,
                 parentCancelled, invCancelled, sub, subOut, drained, drainTarget>>
WaitInvokerCancelled ==
  /\ UseCheckFunc /\ kpc = <<"wait">> /\ invCancelled
  /\ subCancelled' = TRUE      \* g.cancel()
  /\ kpc' = <<"waitcancel">>
  /\ UNCHANGED <<cpc, total, finished, finalizing, result, reserve, resbuf, doneClosed, parentCancelled,
                 invCancelled, sub, subOut, delivered, drained, drainTarget>>
WaitAfterCancel ==
  /\ kpc = <<"waitcancel">> /\ doneClosed
  /\ kpc' = <<"returned">> /\ delivered' = result
  /\ UNCHANGED <<cpc, total, finished, finalizing, result, reserve, resbuf, doneClosed, subCancelled,
                 parentCancelled, invCancelled, sub, subOut, drained, drainTarget>>

(***************************** sub-checks *****************************)
SubDecide(i) ==
  /\ sub[i] = "running" /\ subOut[i] = "none"
  /\ \E o \in Outcomes : subOut' = [subOut EXCEPT ![i] = o]
  /\ UNCHANGED <<cpc, total, finished, finalizing, result, reserve, resbuf, doneClosed, subCancelled,
                 parentCancelled, invCancelled, sub, kpc, delivered, drained, drainTarget>>
\* resultCh <- r  (capacity 1: enabled when the buffer is empty)
SubSend(i) ==
  /\ sub[i] = "running" /\ subOut[i] # "none"
  /\ (subOut[i] = "wait" => SubCtxDone)
  /\ Len(resbuf) = 0
  /\ resbuf' = <<IF subOut[i] = "wait" THEN "err" ELSE subOut[i]>>
  /\ sub' = [sub EXCEPT ![i] = "finished"]
  /\ UNCHANGED <<cpc, total, finished, finalizing, result, reserve, doneClosed, subCancelled, parentCancelled,
                 invCancelled, subOut, kpc, delivered, drained, drainTarget>>

(************************ drainer and contexts ************************)
Drain ==
  /\ cpc = "exited" /\ drained < drainTarget /\ Len(resbuf) > 0
  /\ resbuf' = Tail(resbuf) /\ drained' = drained + 1
  /\ UNCHANGED <<cpc, total, finished, finalizing, result, reserve, doneClosed, subCancelled, parentCancelled,
                 invCancelled, sub, subOut, kpc, delivered, drainTarget>>
ParentCancel ==
  /\ ~parentCancelled /\ parentCancelled' = TRUE
  /\ UNCHANGED <<cpc, total, finished, finalizing, result, reserve, resbuf, doneClosed, subCancelled,
                 invCancelled, sub, subOut, kpc, delivered, drained, drainTarget>>
InvokerCancel ==
  /\ UseCheckFunc /\ ~invCancelled /\ invCancelled' = TRUE
  /\ UNCHANGED <<cpc, total, finished, finalizing, result, reserve, resbuf, doneClosed, subCancelled,
                 parentCancelled, sub, subOut, kpc, delivered, drained, drainTarget>>

Next == \/ ConsumerStart \/ RecvAdd \/ RecvFinalize \/ RecvResult \/ RecvCtxDone
        \/ AddReserve \/ AddAbort \/ FinalizeDone \/ WaitDone \/ WaitInvokerCancelled \/ WaitAfterCancel
        \/ (\E i \in Subs : SubDecide(i) \/ SubSend(i)) \/ Drain \/ ParentCancel \/ InvokerCancel

\* every goroutine keeps running; the request context is eventually released
Fair == /\ WF_vars(ConsumerStart) /\ WF_vars(RecvAdd) /\ WF_vars(RecvFinalize) /\ WF_vars(RecvResult)
        /\ WF_vars(RecvCtxDone) /\ WF_vars(AddReserve) /\ WF_vars(AddAbort) /\ WF_vars(FinalizeDone)
        /\ WF_vars(WaitDone) /\ WF_vars(WaitInvokerCancelled) /\ WF_vars(WaitAfterCancel)
        /\ (\A i \in Subs : WF_vars(SubDecide(i)) /\ WF_vars(SubSend(i))) /\ WF_vars(Drain)
        /\ WF_vars(ParentCancel)
Spec == Init /\ [][Next]_vars /\ Fair
SpecNoCancel == Init /\ [][Next]_vars   \* safety only

(****************************** properties ****************************)
TypeOK == /\ reserve \in {0, 1} /\ Len(resbuf) <= 1 /\ total \in 0..NAdds /\ finished \in 0..total

\* the reservation token serialises sub-checks: at most one is in flight
AtMostOneInFlight == Cardinality({i \in Subs : sub[i] = "running"}) <= 1

\* what the group reports is justified by what its sub-checks reported
ResultSound == cpc = "exited" =>
   /\ (result = "is"  => \E i \in Subs : subOut[i] = "is")
   /\ (result = "not" => /\ \A i \in Subs : sub[i] # "running"
                         /\ \A i \in Subs : sub[i] = "finished" => subOut[i] \in {"not", "unk"})
   /\ (result = "err" => parentCancelled \/ \E i \in Subs : subOut[i] \in {"err", "wait"})
   /\ (result = "nilerr" => subCancelled /\ invCancelled)

\* The Result{Err: nil} that the consumer writes when only g.cancel() fired
\* reaches the caller only if the caller's own context was cancelled.
NoDecisionFromForeignCancel == (delivered = "nilerr") => invCancelled

\* Result() and CheckFunc never block forever, every goroutine exits
AllQuiet == /\ kpc = <<"returned">> /\ cpc = "exited"
            /\ \A i \in Subs : sub[i] \in {"idle", "finished"}
            /\ (drainTarget >= 0 => drained = drainTarget)
NoLeak == <>[]AllQuiet
\* ... and the drainer receives exactly the results still owed
DrainExact == cpc = "exited" => drained <= drainTarget
=============================================================================
