package zzverif

import (
	"flag"
	"fmt"
	"os"
	"strconv"
	"strings"
	"testing"
)

var (
	fFamily = flag.String("verif.family", "", "which family to run")
	fIn     = flag.String("verif.in", "", "input case file")
	fOut    = flag.String("verif.out", "", "output result file")
	fShard  = flag.String("verif.shard", "0/1", "shard i/n")
	fSeed   = flag.Int64("verif.seed", 1, "seed")
	fTrace  = flag.String("verif.trace", "", "trace output file")
	fChild  = flag.String("verif.child", "", "child mode payload")
)

func shard() (int, int) {
	p := strings.Split(*fShard, "/")
	i, _ := strconv.Atoi(p[0])
	n, _ := strconv.Atoi(p[1])
	if n <= 0 {
		n = 1
	}
	return i, n
}

var families = map[string]func(t *testing.T){}

func TestVerif(t *testing.T) {
	if *fFamily == "" {
		t.Skip("no -verif.family")
	}
	f, ok := families[*fFamily]
	if !ok {
		fmt.Fprintf(os.Stderr, "unknown family %q\n", *fFamily)
		t.FailNow()
	}
	f(t)
}
