#!/bin/bash
# applies a confirmed seeded change to /repo, runs the given checks (quick), and reverts it
# usage: run/seedrun.sh <patch> <ID> [<ID> ...]
patch=$1; shift
cd /verif
test -z "$(git -C /repo status --porcelain)" || { echo "/repo not clean"; exit 2; }
git -C /repo apply "$patch" || { echo "patch does not apply"; exit 2; }
for id in "$@"; do
  s=$(date +%s)
  out=$(python3 run/check.py $id --tier ${TIER:-quick} 2>/tmp/seedrun_$id.err); rc=$?
  echo "$id rc=$rc $(( $(date +%s) - s ))s $(echo "$out" | grep -E 'violation:|VIOLATION' | head -2 | tr '\n' ' ' | cut -c1-260)"
done
git -C /repo checkout -- . && git -C /repo clean -fdq internal 2>/dev/null
test -z "$(git -C /repo status --porcelain)" || echo "WARNING: /repo not clean after revert"
