"""C13: ApiReq.tla request space sent to the real routers and gRPC handlers; crashes, server errors, state changes on errors"""
import json, re
import lib
from lib import *

SERVER_CODES = {"Internal", "Unknown", "DataLoss", "Unavailable", "Unimplemented"}


def c13(tier):
    ck = Check("C13", tier)
    binary = build_harness()
    per = 60 if tier == "quick" else 8000
    cfg = write_cfg(["PerEndpoint = %d" % per])
    r = tlc("ApiReq", "r.cfg", files={"r.cfg": cfg}, extra=["-seed", str(seed())], workers=8)
    ck.add_tlc(r)
    reqs = []
    seen = set()
    for l in r.lines:
        key = json.dumps([l["ep"], l["fields"]], sort_keys=True)
        if key in seen:
            continue
        seen.add(key)
        reqs.append({"i": len(reqs), "ep": l["ep"], "fields": l["fields"], "readonly": l["readonly"]})
    # deterministic corner requests that a random draw may miss
    corners = [
        ("rest_patch", {"body": "valid", "shape": "null_element", "action": "insert", "namespace": "known", "subject": "id"}),
        ("rest_batch", {"body": "valid", "shape": "null_element", "namespace": "known", "subject": "id", "depth": "absent"}),
        ("grpc_batch", {"shape": "one", "namespace": "known", "subject": "absent", "depth": "0"}),
        ("grpc_batch", {"shape": "null_element", "namespace": "known", "subject": "id", "depth": "0"}),
        ("grpc_expand", {"subject": "absent", "depth": "3"}),
        ("grpc_expand", {"subject": "both", "depth": "3"}),
        ("grpc_check", {"style": "tuple", "namespace": "known", "object": "plain", "subject": "absent", "depth": "0"}),
        ("grpc_transact", {"shape": "null_element", "action": "insert", "namespace": "known", "subject": "id"}),
        ("grpc_transact", {"shape": "one", "action": "insert", "namespace": "known", "subject": "absent"}),
        # more deltas in one request than any storage-side batch holds (1200)
        ("rest_patch", {"body": "valid", "shape": "huge", "action": "delete", "namespace": "known", "subject": "id"}),
        ("rest_patch", {"body": "valid", "shape": "huge", "action": "insert", "namespace": "known", "subject": "set"}),
        ("grpc_transact", {"shape": "huge", "action": "delete", "namespace": "known", "subject": "id"}),
        ("grpc_transact", {"shape": "huge", "action": "delete", "namespace": "known", "subject": "set"}),
        ("grpc_transact", {"shape": "huge", "action": "insert", "namespace": "known", "subject": "id"}),
        ("rest_list", {"namespace": "known", "object": "absent", "relation": "absent", "subject": "absent", "page_size": "-5", "page_token": "absent"}),
        ("rest_list", {"namespace": "known", "object": "absent", "relation": "absent", "subject": "absent", "page_size": "absent", "page_token": "xyz"}),
        ("grpc_list", {"query": "new", "namespace": "known", "object": "absent", "subject": "absent", "page_size": "absent", "page_token": "xyz"}),
        ("grpc_list", {"query": "neither", "namespace": "known", "object": "absent", "subject": "absent", "page_size": "absent", "page_token": "absent"}),
        ("grpc_delete", {"query": "neither", "namespace": "known", "object": "absent", "subject": "absent"}),
    ]
    # whole documents for the syntax-check endpoints: the typed programs of OplTypes.tla (every type of the traversed relation, recursive
    # subject-set types, mutations, class orders) and, in the thorough tier, expression programs of OplGrammar.tla
    cfg = write_cfg(["AsIsThroughSubjectSet = TRUE"])
    tp = tlc("OplTypes", "t1.cfg", files={"t1.cfg": cfg})
    ck.add_tlc(tp)
    import random
    rnd = random.Random(seed())
    docs = sorted({l["src"] for l in tp.lines})
    bykey = {}
    for l in tp.lines:
        bykey.setdefault((l["prog"]["pt"], l["prog"]["gm"], l["prog"]["body"], l["prog"]["mut"] == "none"), []).append(l["src"])
    pick = [rnd.choice(sorted(set(v))) for k, v in sorted(bykey.items())]      # one per (types, body, mutated?) class: 100 documents
    if tier != "quick":
        pick += rnd.sample(docs, min(len(docs), 1500))
    for j, src in enumerate(pick):
        corners.append(("rest_syntax" if j % 2 == 0 else "grpc_syntax", {"bytes": "prog:" + src}))
    # ... and a string literal with invalid UTF-8 in the place of every token of a valid document (sent as hex)
    import p_opl
    toks = p_opl.tokens_of(p_opl.GOOD)
    nbad = 0
    for i, tk in enumerate(toks):
        if tk.isspace():
            continue
        doc = "".join(toks[:i]).encode() + b"'\xff\xfe'" + "".join(toks[i + 1:]).encode()
        corners.append(("grpc_syntax", {"bytes": "progx:" + doc.hex()}))
        corners.append(("rest_syntax", {"bytes": "progx:" + doc.hex()}))
        nbad += 2
    ck.extra["opl_documents_sent_to_syntax_check"] = len(pick) + nbad
    for ep, f in corners:
        reqs.append({"i": len(reqs), "ep": ep, "fields": f, "readonly": ep not in ("rest_create", "rest_delete", "rest_patch", "grpc_transact", "grpc_delete", "rest_wrong_route")})
    pending = list(reqs)
    results = {}
    crashes = 0
    while pending:
        lib.CRASHED.clear()
        recs = run_harness(binary, "fuzz", {"reqs": pending}, tolerate_crash=True, timeout=1200)
        started = set()
        for x in recs:
            if "start" in x:
                started.add(x["start"])
            elif "i" in x:
                results[x["i"]] = x
        inflight = sorted(i for i in started if i not in results)
        if not lib.CRASHED:
            break
        crashes += len(inflight)
        for i in inflight:
            logtail = "\n".join(c[2] for c in lib.CRASHED)
            m = re.search(r"(panic: .*?)(?:\n\n|\Z)", logtail, re.S)
            results[i] = {"i": i, "kind": "exit", "exited": True, "panic": (m.group(1) if m else logtail[-1500:])[:2500]}
        if not inflight or crashes > 25:
            raise Inconclusive("harness shards died without a request in flight (or too many crashes): %s" % [c[1] for c in lib.CRASHED])
        pending = [q for q in pending if q["i"] not in results]
    for q in reqs:
        o = results.get(q["i"])
        if o is None:
            raise Inconclusive("request %d was not executed" % q["i"])
        ck.evaluations += 1
        cid = {"endpoint": q["ep"], "fields": q["fields"], "request": o.get("desc", "")[:600]}
        if o.get("exited"):
            ck.violation("the server process exited while handling the request", dict(cid, crash=o.get("panic", "")[:2500]))
            continue
        if o.get("kind") == "skip":
            raise Inconclusive(o.get("desc"))
        if o["panicked"]:
            ck.violation("handler panicked", dict(cid, panic=o["panic"][:2500]))
            continue
        if o["kind"] == "rest" and o["status"] >= 500:
            ck.violation("request answered with a server error (HTTP %d)" % o["status"], dict(cid, status=o["status"]))
        if o["kind"] == "grpc" and o["code"] in SERVER_CODES:
            ck.violation("request answered with a server error (gRPC %s)" % o["code"], dict(cid, code=o["code"]))
        if o["state_changed"] and (o["failed"] or q["readonly"]):
            ck.violation("stored state changed although the request %s" % ("failed" if o["failed"] else "is a read request"), dict(cid, status=o.get("status"), code=o.get("code")))
        if o["failed"]:
            ck.nontrivial.add(q["i"])
        if len(ck.samples) < 5 and o["failed"] and q["i"] % 37 == 0:
            ck.sample(dict(cid, status=o.get("status"), code=o.get("code")))
    # the rejected requests and the read requests once more, many at a time: each must get the reply it gets alone, and the
    # process must live (an error value shared between requests is written by one and read by another)
    again = [q for q in reqs if q["readonly"] and not results[q["i"]].get("exited") and not results[q["i"]].get("panicked")
             and "huge" not in json.dumps(q["fields"])]
    rej = [q for q in again if results[q["i"]]["failed"]]
    rnd2 = random.Random(seed())
    pick2 = rej if len(rej) <= 600 else rnd2.sample(rej, 600)
    pick2 = pick2 + rnd2.sample([q for q in again if not results[q["i"]]["failed"]], min(100, len(again) - len(rej)))
    lib.CRASHED.clear()
    crecs = run_harness(binary, "fuzz", {"reqs": pick2, "conc": 16}, shards=8, tolerate_crash=True, timeout=1200)
    started = sum(1 for x in crecs if "conc_start" in x)
    done = [x for x in crecs if "conc_done" in x]
    if lib.CRASHED:
        if started == 0:
            raise Inconclusive("concurrent pass died before it started: %s" % lib.CRASHED[0][2][-1500:])
        ck.violation("the server process exited while rejected and read requests were handled %d at a time (each of them is answered alone)" % 16,
                     {"crash": lib.CRASHED[0][2][:3000], "requests": len(pick2)})
    elif len(done) < 8:
        raise Inconclusive("the concurrent pass did not finish")
    for x in done:
        ck.evaluations += x["conc_done"]
        for d in x["diffs"] or []:
            rq = next(q for q in reqs if q["i"] == d["i"])
            ck.violation("a request is answered differently when other requests are in flight", dict(d, endpoint=rq["ep"], fields=rq["fields"]))
    ck.extra["requests_repeated_16_at_a_time"] = len(pick2)
    if not ck.samples:
        ck.sample({"endpoint": reqs[0]["ep"], "fields": reqs[0]["fields"]})
    ck.extra["requests"] = len(reqs)
    ck.extra["process_crashes"] = crashes
    ck.rule = ("ApiReq.tla draws %d requests per endpoint (19 endpoints, REST and gRPC) from the product of per-field variants, plus fixed corner requests; each is sent "
               "to the real routers / handler methods with a byte-level dump before and after; a shard that dies is restarted without the request that was in flight; "
               "non-trivial: the request was rejected" % per)
    ck.assumptions = ["gRPC requests call the handler methods directly (no interceptor chain)", "storage never fails in these runs, so every 5xx / Internal is a defect",
                      "sqlite in-memory backend only"]
    ck.finish()
