#!/usr/bin/env python3
"""Verifies a sub-agent's seeded change in a scratch worktree (never in /repo):
the patch applies to /repo HEAD, builds, the demonstration fails with it and passes without it, and the pinned
baseline still passes with it. Then copies it to /verif/seeded/<name>/.
usage: python3 run/seedverify.py <seed dir> <name>"""
import json, os, shutil, subprocess, sys

def sh(cmd, **kw):
    return subprocess.run(cmd, shell=True, capture_output=True, text=True, **kw)

def main():
    src, name = sys.argv[1], sys.argv[2]
    meta = json.load(open(os.path.join(src, "meta.json")))
    wt = "/tmp/wt/verify_%s" % name
    sh("git -C /repo worktree remove --force %s" % wt)
    r = sh("git -C /repo worktree add --detach %s HEAD" % wt)
    if r.returncode: print(r.stderr); sys.exit(2)
    log = {}
    try:
        env = "cd %s && GOFLAGS=-mod=mod GOPROXY=off " % wt
        demo = [f for f in os.listdir(src) if f.endswith("_test.go")]
        ddir = os.path.join(wt, meta["demo_dir"])
        for f in demo:
            shutil.copy(os.path.join(src, f), ddir)
        cmd = meta["demo_cmd"].replace("/tmp/wt/%s" % meta.get("property", "XXX"), wt)
        if "cd " not in cmd:
            cmd = env + cmd
        else:
            import re
            cmd = re.sub(r"cd\s+\S+", "cd %s" % wt, cmd)
        r0 = sh(cmd)
        log["demo_without_change"] = {"rc": r0.returncode, "tail": (r0.stdout + r0.stderr)[-600:]}
        a = sh("git -C %s apply %s" % (wt, os.path.join(src, "patch.diff")))
        if a.returncode:
            log["apply"] = a.stderr; raise SystemExit("patch does not apply: " + a.stderr)
        b = sh(env + "go build ./...")
        log["build_rc"] = b.returncode
        r1 = sh(cmd)
        log["demo_with_change"] = {"rc": r1.returncode, "tail": (r1.stdout + r1.stderr)[-1200:]}
        for f in demo:
            os.remove(os.path.join(ddir, f))
        # the pinned baseline with the change
        t = sh(env + "go test -json -vet=off -count=1 -timeout 25m ./... ; cd proto && GOFLAGS=-mod=mod GOPROXY=off go test -json -vet=off -count=1 ./...")
        res = {}
        for l in t.stdout.splitlines():
            try: e = json.loads(l)
            except Exception: continue
            if e.get("Action") in ("pass", "fail") and e.get("Test"):
                res[e["Package"] + "::" + e["Test"]] = e["Action"]
        base = json.load(open("/root/.vp/BASELINE.json"))["stable_pass"]
        broken = [x for x in base if res.get(x) != "pass"]
        log["baseline_broken"] = broken[:10]
        ok = (r0.returncode == 0 and r1.returncode != 0 and b.returncode == 0 and not broken)
        log["confirmed"] = ok
        print(json.dumps(log, indent=1)[:3000])
        if ok:
            dst = os.path.join("/verif/seeded", name)
            os.makedirs(dst, exist_ok=True)
            shutil.copy(os.path.join(src, "patch.diff"), dst)
            for f in demo:
                shutil.copy(os.path.join(src, f), dst)
            meta["verified_by_me"] = log
            json.dump(meta, open(os.path.join(dst, "meta.json"), "w"), indent=1)
    finally:
        sh("git -C /repo worktree remove --force %s" % wt)

main()
