"""C08: Api.tla response mapping and batch enumeration replayed on every check transport"""
import json
import lib
from lib import *
import p_check

QUERIES = [
    (["R", "r", "v", ["id", "u"]], "valid"),
    (["D", "d", "both", ["id", "u"]], "valid"),
    (["D", "d", "nota", ["id", "u"]], "valid"),
    (["D", "d", "either", ["set", "G", "g", "m"]], "valid"),
    (["X", "o", "r", ["id", "u"]], "unknownns"),
    (["D", "d", "a", ["set", "X", "o", "r"]], "unknownns"),
    (["D", "d", "a", ["none"]], "nosubject"),
    (["D", "d", "viapar", ["id", "u"]], "valid"),
    # a different tuple with the same canonical string n:o#r@s as the fourth one: a subject id that looks like a subject set
    (["D", "d", "either", ["id", "G:g#m"]], "valid"),
    # relationships that are stored verbatim in some of the states (a subject id and a subject set)
    (["D", "d", "a", ["id", "u"]], "valid"),
    (["G", "g", "m", ["set", "G", "h", "m"]], "valid"),
    # a subject id that differs from a stored one by a trailing blank: another subject
    (["D", "d", "a", ["id", "u "]], "valid"),
]
STATES = [[], [8], [2, 8], [1, 3, 4, 5, 6], [3, 5, 6, 9, 10], [1, 2, 3, 4, 5, 6, 7, 8, 9, 10], [3, 4, 8], [2, 3, 5, 6]]


def c08(tier):
    ck = Check("C08", tier)
    binary = build_harness()
    maxlen = 3 if tier == "quick" else 4
    cfg = write_cfg(["MaxBatch = 10", "NQ = %d" % len(QUERIES), "MaxLen = %d" % maxlen], invariants=["Pointwise"])
    r = tlc("Api", "a.cfg", files={"a.cfg": cfg})
    ck.add_tlc(r)
    if r.violation:
        ck.violation("Api.tla: " + r.violation, {"tlc": r.raw_tail[-3000:]})
    table = [l for l in r.lines if "table" in l][0]
    batches = [l["batch"] for l in r.lines if "batch" in l]
    # the family definition comes from CheckCases.tla
    dck = Check("C08", tier)
    defs, _ = p_check.oracle("quick", ["rw"], dck, sample=1, ords=1)
    ck.states += dck.states; ck.transitions += dck.transitions
    # the server's own depth limit is 3, so that request depths on both sides of it are sent
    depths = [0, 1, 2, 5] if tier == "quick" else [-1, 0, 1, 2, 3, 5, 8, 100]
    inp = {"def": defs["rw"], "states": STATES, "queries": [q for q, _ in QUERIES], "depths": depths, "batches": batches, "maxbatch": table["maxbatch"],
           "gdepth": 3}
    recs = run_harness(binary, "api", inp, shards=min(8, len(STATES)))
    if len(recs) != len(STATES) * len(depths):
        raise Inconclusive("expected %d result records, got %d" % (len(STATES) * len(depths), len(recs)))
    for rec in recs:
        eng = rec["engine"]
        ctx0 = {"stored": [defs["rw"]["U"][i - 1] for i in STATES[rec["state"]]], "max_depth": rec["depth"]}
        # the decision per query, as the engine gives it
        dec = []
        for qi, (q, cls) in enumerate(QUERIES):
            if cls == "valid":
                if eng[qi]["status"] != "engine" or eng[qi]["error"]:
                    raise Inconclusive("engine could not decide a valid query: %s" % eng[qi])
                dec.append("allowed" if eng[qi]["allowed"] else "denied")
            else:
                dec.append("denied")
        for tr, replies in rec["singles"].items():
            for qi, (q, cls) in enumerate(QUERIES):
                ck.evaluations += 1
                want = table["table"][tr][cls][dec[qi]]
                got = replies[qi]
                cid = dict(ctx0, transport=tr, tuple=q, tuple_class=cls, engine_decision=dec[qi], expected=want, observed=got)
                if got["status"] == "panic":
                    ck.extra["panics_seen"] = ck.extra.get("panics_seen", 0) + 1
                    continue  # crashes are C13's business
                if got["allowed"] != want["allowed"]:
                    ck.violation("%s reports allowed=%s, the engine decides %s" % (tr, got["allowed"], dec[qi]), cid)
                elif cls == "unknownns" and got["allowed"]:
                    ck.violation("%s reports an unknown namespace as allowed" % tr, cid)
                elif got["status"] != want["status"]:
                    ck.violation("%s answered status %s, expected %s" % (tr, got["status"], want["status"]), cid)
                if cls == "valid" and dec[qi] == "allowed":
                    ck.nontrivial.add((rec["state"], rec["depth"], tr, qi))
        for bi, br in enumerate(rec["batches"]):
            b = batches[bi]
            for tr in ("engine_batch", "grpc_batch", "rest_batch"):
                ck.evaluations += 1
                got = br[tr]
                cid = dict(ctx0, transport=tr, batch=[QUERIES[i - 1][0] for i in b][:12], batch_len=len(b), observed=got)
                if got["status"] == "panic":
                    ck.extra["panics_seen"] = ck.extra.get("panics_seen", 0) + 1
                    continue
                if len(b) > table["maxbatch"]:
                    if tr != "engine_batch" and got["status"] == "OK":
                        ck.violation("%s accepted a batch larger than the configured maximum" % tr, cid)
                    continue
                if got["status"] != "OK":
                    ck.violation("%s rejected a batch within the size limit (%s)" % (tr, got["status"]), cid)
                    continue
                res = got["results"] or []
                if len(res) != len(b):
                    ck.violation("%s returned %d results for %d tuples" % (tr, len(res), len(b)), cid)
                    continue
                for pos, qidx in enumerate(b):
                    cls = QUERIES[qidx - 1][1]
                    want = table["entry"][cls][dec[qidx - 1]]
                    if res[pos]["allowed"] != want["allowed"] or res[pos]["error"] != want["error"]:
                        ck.violation("%s entry %d differs from the single check of the same tuple" % (tr, pos),
                                     dict(cid, position=pos, tuple=QUERIES[qidx - 1][0], expected=want, observed_entry=res[pos]))
                        break
                if len(set(b)) > 1:
                    ck.nontrivial.add((rec["state"], rec["depth"], tr, tuple(b)))
    ck.sample({"stored": [defs["rw"]["U"][i - 1] for i in STATES[3]], "queries": [q for q, _ in QUERIES], "batch": batches[len(batches) // 2]})
    ck.extra["batches"] = len(batches)
    import p_reconf
    p_reconf.reconf(ck, binary, tier, "C08")
    ck.rule = ("8 tuples (valid with subject id / subject set, unknown namespace in the tuple and in the subject set, no subject) x 8 stored states x max-depth "
               "values through REST GET/POST (mirror and openapi), gRPC Check (both field styles), and every batch composition up to length %d (plus the size "
               "limit -1/0/+1) through the engine, REST and gRPC; expected replies are the Api.tla mapping applied to the engine's own decision; "
               "non-trivial: an allowed decision, or a batch with at least two distinct tuples" % maxlen)
    ck.assumptions = ["sqlite in-memory backend only", "the engine decision is taken from CheckRelationTuple on the same stored state"]
    ck.finish()
